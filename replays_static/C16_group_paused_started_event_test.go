package types_test

// Replay for C16: the group-paused and group-started events emitted by the deployment keeper do not decode
// through the module's ParseEvent (unknown action), so the provider's event pipeline drops them.

import (
	"testing"

	sdk "github.com/cosmos/cosmos-sdk/types"
	abci "github.com/tendermint/tendermint/abci/types"

	"github.com/ovrclk/akash/sdkutil"
	"github.com/ovrclk/akash/testutil"
	"github.com/ovrclk/akash/x/deployment/types"
)

func verifRoundTrip(t *testing.T, in sdkutil.ModuleEvent) {
	sev := sdk.StringifyEvent(abci.Event(in.ToSDKEvent()))
	ev, err := sdkutil.ParseEvent(sev)
	if err != nil {
		t.Fatalf("C16 violated: %T: %v", in, err)
	}
	out, err := types.ParseEvent(ev)
	if err != nil {
		t.Fatalf("C16 violated: %T does not parse back: %v", in, err)
	}
	if out != in {
		t.Fatalf("C16 violated: %T parses back to %#v", in, out)
	}
}

func TestVerifC16GroupPausedStarted(t *testing.T) {
	gid := testutil.GroupID(t)
	verifRoundTrip(t, types.NewEventGroupPaused(gid))
	verifRoundTrip(t, types.NewEventGroupStarted(gid))
}

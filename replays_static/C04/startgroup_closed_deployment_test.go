package handler_test

// Replay for C04: after an overdraft closes a deployment (groups -> insufficient_funds), StartGroup / PauseGroup
// still succeed and leave an open (or paused) group, and an open order, under a closed deployment.
// Run: go test -overlay <ov.json> -vet=off -run TestVerifC04 ./x/deployment/handler/

import (
	"testing"

	sdk "github.com/cosmos/cosmos-sdk/types"
	"github.com/stretchr/testify/require"

	"github.com/ovrclk/akash/testutil"
	"github.com/ovrclk/akash/testutil/state"
	"github.com/ovrclk/akash/x/deployment/handler"
	"github.com/ovrclk/akash/x/deployment/types"
	mtypes "github.com/ovrclk/akash/x/market/types"
)

func verifSuite(t *testing.T) *testSuite {
	ssuite := state.SetupTestSuite(t)
	suite := &testSuite{TestSuite: ssuite, t: t, ctx: ssuite.Context(), mkeeper: ssuite.MarketKeeper(), dkeeper: ssuite.DeploymentKeeper()}
	suite.handler = handler.NewHandler(suite.dkeeper, suite.mkeeper, ssuite.EscrowKeeper())
	return suite
}

func verifOverdraw(t *testing.T, suite *testSuite) (types.Deployment, []types.Group) {
	deployment, groups := suite.createDeployment()
	msg := &types.MsgCreateDeployment{ID: deployment.ID(), Deposit: types.DefaultDeploymentMinDeposit}
	for _, group := range groups {
		msg.Groups = append(msg.Groups, group.GroupSpec)
	}
	_, err := suite.handler(suite.ctx, msg)
	require.NoError(t, err)
	// a payment stream that exhausts the deposit within one block
	aid := types.EscrowAccountForDeployment(deployment.ID())
	rate := sdk.NewCoin(types.DefaultDeploymentMinDeposit.Denom, types.DefaultDeploymentMinDeposit.Amount.MulRaw(2))
	require.NoError(t, suite.EscrowKeeper().PaymentCreate(suite.ctx, aid, "1/1/"+testutil.AccAddress(t).String(), testutil.AccAddress(t), rate))
	ctx := suite.ctx.WithBlockHeight(suite.ctx.BlockHeight() + 10)
	od, err := suite.EscrowKeeper().AccountSettle(ctx, aid)
	require.NoError(t, err)
	require.True(t, od, "account must be overdrawn")
	d, ok := suite.dkeeper.GetDeployment(ctx, deployment.ID())
	require.True(t, ok)
	require.Equal(t, types.DeploymentClosed, d.State)
	suite.ctx = ctx
	return d, suite.dkeeper.GetGroups(ctx, deployment.ID())
}

func TestVerifC04StartGroupUnderClosedDeployment(t *testing.T) {
	suite := verifSuite(t)
	d, groups := verifOverdraw(t, suite)
	require.NotEmpty(t, groups)
	require.Equal(t, types.GroupInsufficientFunds, groups[0].State)
	_, err := suite.handler(suite.ctx, &types.MsgStartGroup{ID: groups[0].ID()})
	g, _ := suite.dkeeper.GetGroup(suite.ctx, groups[0].ID())
	open := 0
	suite.mkeeper.WithOrdersForGroup(suite.ctx, g.ID(), func(o mtypes.Order) bool {
		if o.State == mtypes.OrderOpen {
			open++
		}
		return false
	})
	if err == nil && g.State == types.GroupOpen {
		t.Fatalf("C04 violated: deployment=%v group=%v open orders=%d", d.State, g.State, open)
	}
}

func TestVerifC04PauseGroupUnderClosedDeployment(t *testing.T) {
	suite := verifSuite(t)
	d, groups := verifOverdraw(t, suite)
	require.NotEmpty(t, groups)
	_, err := suite.handler(suite.ctx, &types.MsgPauseGroup{ID: groups[0].ID()})
	g, _ := suite.dkeeper.GetGroup(suite.ctx, groups[0].ID())
	if err == nil && g.State == types.GroupPaused {
		t.Fatalf("C04 violated: deployment=%v group=%v", d.State, g.State)
	}
}

package handler_test

// Replay for C05/C04: a deployment whose owner string is the upper-case bech32 form of the tenant's address is
// accepted, but the escrow hooks re-derive the id in canonical (lower-case) form and never find it.

import (
	"strings"
	"testing"

	sdk "github.com/cosmos/cosmos-sdk/types"
	"github.com/stretchr/testify/require"

	"github.com/ovrclk/akash/x/deployment/types"
	etypes "github.com/ovrclk/akash/x/escrow/types"
)

func TestVerifC05UppercaseOwner(t *testing.T) {
	suite := verifSuite(t)
	deployment, groups := suite.createDeployment()
	id := deployment.ID()
	id.Owner = strings.ToUpper(id.Owner)
	_, err := sdk.AccAddressFromBech32(id.Owner)
	require.NoError(t, err, "upper-case bech32 is a valid address")
	msg := &types.MsgCreateDeployment{ID: id, Deposit: types.DefaultDeploymentMinDeposit, Version: deployment.Version}
	for _, group := range groups {
		msg.Groups = append(msg.Groups, group.GroupSpec)
	}
	if err := msg.ValidateBasic(); err != nil {
		return // the non-canonical id is rejected: nothing to observe
	}
	require.Equal(t, deployment.ID().Owner, msg.GetSigners()[0].String())
	_, err = suite.handler(suite.ctx, msg)
	require.NoError(t, err)
	_, err = suite.handler(suite.ctx, &types.MsgCloseDeployment{ID: id})
	require.NoError(t, err)
	acct, err := suite.EscrowKeeper().GetAccount(suite.ctx, types.EscrowAccountForDeployment(id))
	require.NoError(t, err)
	d, ok := suite.dkeeper.GetDeployment(suite.ctx, id)
	require.True(t, ok)
	if acct.State != etypes.AccountOpen && d.State == types.DeploymentActive {
		t.Fatalf("C05 violated: escrow account %v but deployment %v", acct.State, d.State)
	}
}

package utils_test

// Replay for C09: the gateway's VerifyPeerCertificate accepts (a) a self-made certificate that copies the subject name
// and serial number of a victim's on-chain certificate (the pool it verifies against is built from the presented
// certificate itself), and (b) any certificate whose issuer name differs from its subject (errors.Wrap(nil, ...) is nil).

import (
	"context"
	"crypto/ecdsa"
	"crypto/elliptic"
	"crypto/rand"
	"crypto/x509"
	"crypto/x509/pkix"
	"math/big"
	"testing"
	"time"

	"github.com/stretchr/testify/mock"
	"github.com/stretchr/testify/require"

	"github.com/ovrclk/akash/client/mocks"
	utils "github.com/ovrclk/akash/provider/gateway/utils"
	"github.com/ovrclk/akash/testutil"
	ctypes "github.com/ovrclk/akash/x/cert/types"
)

func verifSelfMade(t *testing.T, subjectCN, issuerCN string, serial *big.Int) []byte {
	priv, err := ecdsa.GenerateKey(elliptic.P256(), rand.Reader)
	require.NoError(t, err)
	tmpl := x509.Certificate{
		SerialNumber:          serial,
		Subject:               pkix.Name{CommonName: subjectCN},
		NotBefore:             time.Now().Add(-time.Minute),
		NotAfter:              time.Now().Add(time.Hour),
		KeyUsage:              x509.KeyUsageDataEncipherment | x509.KeyUsageKeyEncipherment,
		ExtKeyUsage:           []x509.ExtKeyUsage{x509.ExtKeyUsageClientAuth},
		BasicConstraintsValid: true,
	}
	parent := tmpl
	signer := priv
	if issuerCN != subjectCN {
		// signed by some unrelated authority
		capriv, err := ecdsa.GenerateKey(elliptic.P256(), rand.Reader)
		require.NoError(t, err)
		parent = x509.Certificate{SerialNumber: big.NewInt(1), Subject: pkix.Name{CommonName: issuerCN}, NotBefore: tmpl.NotBefore, NotAfter: tmpl.NotAfter,
			IsCA: true, KeyUsage: x509.KeyUsageCertSign, BasicConstraintsValid: true}
		signer = capriv
	}
	der, err := x509.CreateCertificate(rand.Reader, &tmpl, &parent, priv.Public(), signer)
	require.NoError(t, err)
	return der
}

func TestVerifC09ForgedCopyRejected(t *testing.T) {
	victim := testutil.AccAddress(t)
	qclient := &mocks.QueryClient{}
	// the victim's genuine certificate is on chain (the mock answers the query for (owner, serial, valid) with it)
	genuine := testutil.Certificate(t, victim, testutil.CertificateOptionMocks(qclient))
	cfg, err := utils.NewServerTLSConfig(context.Background(), genuine.Cert, qclient)
	require.NoError(t, err)
	// sanity: the genuine certificate is accepted
	require.NoError(t, cfg.VerifyPeerCertificate([][]byte{genuine.Cert[0].Certificate[0]}, nil))
	// a self-made certificate with the same name and serial number, made without the victim's key
	forged := verifSelfMade(t, victim.String(), victim.String(), &genuine.Serial)
	if err := cfg.VerifyPeerCertificate([][]byte{forged}, nil); err == nil {
		t.Fatalf("C09 violated: forged certificate (copied subject and serial) accepted as %s", victim)
	}
}

func TestVerifC09ForeignIssuerRejected(t *testing.T) {
	victim := testutil.AccAddress(t)
	qclient := &mocks.QueryClient{}
	qclient.On("Certificates", mock.Anything, mock.Anything).Return(&ctypes.QueryCertificatesResponse{}, nil)
	cfg, err := utils.NewServerTLSConfig(context.Background(), nil, qclient)
	require.NoError(t, err)
	alien := verifSelfMade(t, victim.String(), "some other authority", big.NewInt(7))
	if err := cfg.VerifyPeerCertificate([][]byte{alien}, nil); err == nil {
		t.Fatalf("C09 violated: certificate issued by a foreign authority accepted as %s without any chain lookup", victim)
	}
}

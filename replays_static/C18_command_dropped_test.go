package sdl

// Replay for C18 (faithfulness clause): a service's `command:` in the SDL must reach the manifest unchanged.
// On the pinned tree the v2 translation copied image, args and env but not the command, so the tenant's
// container ran with the image's default entrypoint.

import (
	"testing"

	"github.com/stretchr/testify/require"
)

func TestVerifC18CommandReachesManifest(t *testing.T) {
	const doc = `---
version: "2.0"
services:
  web:
    image: busybox
    command:
      - /bin/sh
      - -c
    args:
      - "echo hello"
    expose:
      - port: 80
        to:
          - global: true
profiles:
  compute:
    web:
      resources:
        cpu:
          units: "100m"
        memory:
          size: "128Mi"
        storage:
          size: "1Gi"
  placement:
    westcoast:
      pricing:
        web:
          denom: uakt
          amount: 50
deployment:
  web:
    westcoast:
      profile: web
      count: 1
`
	s, err := Read([]byte(doc))
	require.NoError(t, err)
	m, err := s.Manifest()
	require.NoError(t, err)
	require.Len(t, m, 1)
	require.Len(t, m[0].Services, 1)
	svc := m[0].Services[0]
	require.Equal(t, []string{"echo hello"}, svc.Args)
	if len(svc.Command) != 2 || svc.Command[0] != "/bin/sh" || svc.Command[1] != "-c" {
		t.Fatalf("VERIF-REPRODUCED: the declared command [/bin/sh -c] is not in the manifest (got %v)", svc.Command)
	}
}

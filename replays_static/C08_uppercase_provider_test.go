package handler_test

// Replay for C08: the attribute guard of UpdateProvider identifies the provider's leases by comparing the stored
// owner *text* with the lease's provider text; a provider whose MsgUpdateProvider spells its (same) address in
// upper-case bech32 passes validation and signature checks but matches none of its leases, so it can drop
// attributes its active leases require.

import (
	"strings"
	"testing"

	"github.com/stretchr/testify/require"

	"github.com/ovrclk/akash/testutil"
	akashtypes "github.com/ovrclk/akash/types"
	"github.com/ovrclk/akash/x/provider/types"
)

func TestVerifC08UppercaseProvider(t *testing.T) {
	suite := setupTestSuite(t)
	addr := testutil.AccAddress(t)
	createMsg := &types.MsgCreateProvider{Owner: addr.String(), HostURI: testutil.ProviderHostname(t), Attributes: testutil.Attributes(t)}
	_, err := suite.handler(suite.ctx, createMsg)
	require.NoError(t, err)

	group := testutil.DeploymentGroup(t, testutil.DeploymentID(t), 0)
	group.GroupSpec.Resources = testutil.Resources(t)
	group.GroupSpec.Requirements = akashtypes.PlacementRequirements{Attributes: createMsg.Attributes}
	order, err := suite.mkeeper.CreateOrder(suite.ctx, group.ID(), group.GroupSpec)
	require.NoError(t, err)
	bid, err := suite.mkeeper.CreateBid(suite.ctx, order.ID(), addr, testutil.Coin(t))
	require.NoError(t, err)
	suite.mkeeper.CreateLease(suite.ctx, bid)

	// first update: same attributes, owner spelled in upper case (same account, same signer)
	up := &types.MsgUpdateProvider{Owner: strings.ToUpper(addr.String()), HostURI: createMsg.HostURI, Attributes: createMsg.Attributes}
	if up.ValidateBasic() != nil {
		return // non-canonical spelling rejected: nothing to observe
	}
	require.Equal(t, addr.String(), up.GetSigners()[0].String())
	_, err = suite.handler(suite.ctx, up)
	if err != nil {
		return
	}
	// second update drops every attribute although the active lease's order requires them
	up2 := &types.MsgUpdateProvider{Owner: up.Owner, HostURI: createMsg.HostURI, Attributes: nil}
	_, err = suite.handler(suite.ctx, up2)
	if err == nil {
		t.Fatalf("C08 violated: provider dropped attributes required by its active lease")
	}
}

package main

import (
	"context"
	"os/exec"
	"encoding/json"
	"flag"
	"fmt"
	"os"
	"path/filepath"
	"regexp"
	"sort"
	"strconv"
	"strings"
	"time"

	"golang.org/x/tools/go/ssa"
)

var verifDir = "/verif"

func main() {
	if len(os.Args) < 2 {
		fmt.Fprintln(os.Stderr, "usage: govc check <Cxx> [--tier quick|thorough] | list <Cxx> | replay <file> | selftest")
		os.Exit(2)
	}
	if d := os.Getenv("VERIF_DIR"); d != "" {
		verifDir = d
	}
	switch os.Args[1] {
	case "check":
		os.Exit(cmdCheck(os.Args[2:]))
	case "replay":
		os.Exit(cmdReplay(os.Args[2:]))
	default:
		fmt.Fprintln(os.Stderr, "unknown command", os.Args[1])
		os.Exit(2)
	}
}

// property configuration: which packages to load per property
func propertyPackages(id string) ([]string, error) {
	data, err := os.ReadFile(filepath.Join(verifDir, "specs", "properties.conf"))
	if err != nil {
		return nil, err
	}
	for _, ln := range strings.Split(string(data), "\n") {
		f := strings.Fields(ln)
		if len(f) >= 2 && f[0] == id {
			return f[1:], nil
		}
	}
	return nil, fmt.Errorf("property %s not configured in specs/properties.conf", id)
}

type fnReport struct {
	Key      string
	Obls     []*Obligation
	GenErr   string
	Dropped  []string
	Externs  []string
	Cover    []coverPoint
	Callees  []string
	Loops    int
	Trusted  bool
}

func (c *Ctx) verifyFunc(fn *ssa.Function, fc *FuncContract) (rep *fnReport) {
	rep = &fnReport{Key: c.fnKey(fn)}
	g := &FnGen{c: c, fn: fn, fc: fc, declOf: map[string]string{}, vals: map[ssa.Value]*Val{}, usedDropped: map[string]bool{}, usedExtern: map[string]bool{}, closures: map[*ssa.MakeClosure][]capturedVar{}, boundCallees: map[string]bool{}}
	c.curFile = c.ctrFile[fc]
	defer func() {
		c.curFile = nil
		if r := recover(); r != nil {
			if ge, ok := r.(*GenError); ok {
				rep.GenErr = ge.msg
				rep.Obls = nil
				return
			}
			// an internal error of the generator must not crash the check: the function is undecided
			rep.GenErr = fmt.Sprintf("internal generator error: %v", r)
			rep.Obls = nil
		}
	}()
	g.run()
	rep.Obls = g.obls
	rep.Cover = g.cover
	rep.Loops = len(g.loops)
	for k := range g.usedDropped {
		rep.Dropped = append(rep.Dropped, k)
	}
	for k := range g.usedExtern {
		rep.Externs = append(rep.Externs, k)
	}
	sort.Strings(rep.Dropped)
	sort.Strings(rep.Externs)
	seen := map[string]bool{}
	for _, b := range fn.Blocks {
		for _, ins := range b.Instrs {
			if ci, ok := ins.(ssa.CallInstruction); ok {
				if cal := ci.Common().StaticCallee(); cal != nil {
					k := c.fnKey(cal)
					if cc := c.contracts[k]; cc != nil && !cc.Extern && !seen[k] {
						seen[k] = true
						rep.Callees = append(rep.Callees, k)
					}
				}
			}
		}
	}
	for k := range g.boundCallees {
		if cc := c.contracts[k]; cc != nil && !cc.Extern && !seen[k] {
			seen[k] = true
			rep.Callees = append(rep.Callees, k)
		}
	}
	return rep
}

func globMatch(pat, s string) bool {
	re := "^" + strings.ReplaceAll(regexp.QuoteMeta(pat), `\*`, ".*") + "$"
	ok, _ := regexp.MatchString(re, s)
	return ok
}

type knownFinding struct {
	Property   string `json:"property"`
	Obligation string `json:"obligation"`
	What       string `json:"what"`
	Witness    string `json:"witness,omitempty"`
}

func loadKnownFindings() (known []knownFinding, fixed []string) {
	data, err := os.ReadFile(filepath.Join(verifDir, "known_findings.txt"))
	if err != nil {
		return nil, nil
	}
	for _, ln := range strings.Split(string(data), "\n") {
		ln = strings.TrimSpace(ln)
		if strings.HasPrefix(ln, "fixed:") {
			fixed = append(fixed, ln)
			continue
		}
		if strings.HasPrefix(ln, "known:") {
			// known: property=Cxx obligation=<name> what=<text>
			m := regexp.MustCompile(`^known:\s*property=(\S+)\s+obligation=(\S+)\s+what=(.*)$`).FindStringSubmatch(ln)
			if m != nil {
				known = append(known, knownFinding{Property: m[1], Obligation: m[2], What: m[3]})
			}
		}
	}
	return
}

// bounded stand-ins: lines `bounded <Cxx> <pkg> <test file under /verif> <TestName> <bound ...>` in specs/properties.conf
type boundedSpec struct{ pkg, file, test, bound string }

var boundedNotes []string
var structuralNotes []string
var structuralChecked int
var evidenceRoots, evidenceLemmas []string
var structuralFns []string

// structural side conditions: lines `structural <Cxx> nondet-free <root-regex>...` in specs/properties.conf
func structuralChecks(id string) [][]string {
	data, err := os.ReadFile(filepath.Join(verifDir, "specs", "properties.conf"))
	if err != nil {
		return nil
	}
	var out [][]string
	for _, ln := range strings.Split(string(data), "\n") {
		f := strings.Fields(ln)
		if len(f) >= 4 && f[0] == "structural" && f[1] == id && f[2] == "nondet-free" {
			out = append(out, f[3:])
		}
	}
	return out
}

func boundedChecks(id string) []boundedSpec {
	data, err := os.ReadFile(filepath.Join(verifDir, "specs", "properties.conf"))
	if err != nil {
		return nil
	}
	var out []boundedSpec
	for _, ln := range strings.Split(string(data), "\n") {
		f := strings.Fields(ln)
		if len(f) >= 5 && f[0] == "bounded" && f[1] == id {
			out = append(out, boundedSpec{pkg: f[2], file: f[3], test: f[4], bound: strings.Join(f[5:], " ")})
		}
	}
	return out
}

// runBounded injects the test file into the package with `go test -overlay` (nothing is written to the repository).
func runBounded(bs boundedSpec, repo, workDir string) (string, string, bool) {
	os.MkdirAll(workDir, 0o755)
	ov := filepath.Join(workDir, "overlay-"+sanitize(bs.test)+".json")
	target := filepath.Join(repo, strings.TrimPrefix(bs.pkg, "./"), "zz_verif_bounded_test.go")
	js, _ := json.Marshal(map[string]interface{}{"Replace": map[string]string{target: filepath.Join(verifDir, bs.file)}})
	os.WriteFile(ov, js, 0o644)
	ctx, cancel := context.WithTimeout(context.Background(), 15*time.Minute)
	defer cancel()
	cmd := exec.CommandContext(ctx, "go", "test", "-overlay", ov, "-vet=off", "-count=1", "-timeout", "600s", "-run", "^"+bs.test+"$", "-v", bs.pkg)
	cmd.Dir = repo
	cmd.Env = append(os.Environ(), "GOFLAGS=-mod=mod", "GOPROXY=off", "GOSUMDB=off", "GOTOOLCHAIN=local")
	t0 := time.Now()
	outb, err := cmd.CombinedOutput()
	out := string(outb)
	if len(out) > 6000 {
		out = out[len(out)-6000:]
	}
	ok := err == nil && strings.Contains(out, "--- PASS: "+bs.test)
	detail := ""
	if m := regexp.MustCompile(`bounded stand-in: ([0-9]+) inputs checked`).FindStringSubmatch(out); m != nil {
		detail = m[1] + " inputs, "
	}
	status := "passed"
	if !ok {
		status = "FAILED"
	}
	note := fmt.Sprintf("BOUNDED (not a proof) %s in %s: %s; %s%.1fs; bound: %s", bs.test, bs.pkg, status, detail, time.Since(t0).Seconds(), bs.bound)
	fmt.Println(note)
	return note, out, ok
}

// noEvidence: set for partial (-only) and scratch (--noevidence) runs
var noEvidence bool

func cmdCheck(args []string) int {
	fs := flag.NewFlagSet("check", flag.ExitOnError)
	tier := fs.String("tier", "quick", "quick|thorough")
	repo := fs.String("repo", "/repo", "repository")
	timeout := fs.Int("timeout", 0, "per-obligation timeout (s)")
	keep := fs.Bool("keep", false, "keep SMT files")
	verbose := fs.Bool("v", false, "verbose")
	only := fs.String("only", "", "only functions matching this glob")
	noEv := fs.Bool("noevidence", false, "do not write evidence/<id>.json (partial or scratch runs)")
	if len(args) < 1 {
		fmt.Fprintln(os.Stderr, "usage: govc check <Cxx>")
		return 2
	}
	id := args[0]
	fs.Parse(args[1:])
	if t := os.Getenv("VERIF_TIER"); t != "" && (t == "quick" || t == "thorough") {
		*tier = t
	}
	seed := 0
	if s := os.Getenv("VERIF_SEED"); s != "" {
		seed, _ = strconv.Atoi(s)
	}
	noEvidence = *noEv || *only != ""
	if *timeout == 0 {
		*timeout = 30
		if *tier == "thorough" {
			*timeout = 120
		}
	}
	t0 := time.Now()
	pats, err := propertyPackages(id)
	if err != nil {
		fmt.Fprintln(os.Stderr, err)
		return 2
	}
	c, err := newCtx(*repo, pats, []string{filepath.Join(verifDir, "specs")})
	if err != nil {
		fmt.Fprintln(os.Stderr, "load error:", err)
		// a tree that does not load/parse cannot be verified: report as a failed binding obligation
		return reportBroken(id, *tier, seed, "load: "+err.Error(), t0)
	}
	loadS := time.Since(t0).Seconds()
	propPats := c.props[id]
	if len(propPats) == 0 {
		return reportBroken(id, *tier, seed, "no obligations are mapped to property "+id+" (contract files missing?)", t0)
	}
	// roots: functions named by the property patterns
	roots := map[string]bool{}
	for _, p := range propPats {
		if strings.HasPrefix(p, "lemma:") {
			continue
		}
		fk := p
		if i := strings.Index(p, "#"); i >= 0 {
			fk = p[:i]
		}
		matched := false
		for k, fc := range c.contracts {
			if !fc.Extern && globMatch(fk, k) {
				roots[k] = true
				matched = true
			}
		}
		if !matched {
			return reportBroken(id, *tier, seed, "property pattern "+p+" matches no function contract", t0)
		}
	}
	var work []string
	for k := range roots {
		work = append(work, k)
	}
	sort.Strings(work)
	evidenceRoots = append([]string{}, work...)
	evidenceLemmas = nil
	for _, p := range propPats {
		if strings.HasPrefix(p, "lemma:") {
			evidenceLemmas = append(evidenceLemmas, p)
		}
	}
	sort.Strings(evidenceLemmas)
	done := map[string]*fnReport{}
	var reports []*fnReport
	var genFailures []string
	for len(work) > 0 {
		k := work[0]
		work = work[1:]
		if done[k] != nil {
			continue
		}
		fc := c.contracts[k]
		if *only != "" && !globMatch(*only, k) {
			done[k] = &fnReport{Key: k}
			continue
		}
		if fc.Trusted {
			done[k] = &fnReport{Key: k, Trusted: true}
			reports = append(reports, done[k])
			continue
		}
		fn := c.findFunc(k)
		if fn == nil {
			done[k] = &fnReport{Key: k, GenErr: "contract binds to no function in the loaded packages"}
			reports = append(reports, done[k])
			genFailures = append(genFailures, k+"#binding: "+done[k].GenErr)
			continue
		}
		rep := c.verifyFunc(fn, fc)
		done[k] = rep
		reports = append(reports, rep)
		if rep.GenErr != "" {
			genFailures = append(genFailures, k+"#generation: "+rep.GenErr)
		}
		for _, cal := range rep.Callees {
			if done[cal] == nil {
				work = append(work, cal)
			}
		}
	}
	// the functions this property is expected to have under contract (specs/expected/<id>.txt, regenerated with
	// bin/mkexpected after deliberate changes): a property line lost from a contract file would otherwise shrink the
	// check silently
	if *only == "" {
		if data, err := os.ReadFile(filepath.Join(verifDir, "specs", "expected", id+".txt")); err == nil {
			for _, ln := range strings.Split(string(data), "\n") {
				ln = strings.TrimSpace(ln)
				if ln == "" || strings.HasPrefix(ln, "#") {
					continue
				}
				if strings.HasPrefix(ln, "lemma:") {
					found := false
					for _, p := range propPats {
						if p == ln {
							found = true
						}
					}
					if !found {
						genFailures = append(genFailures, ln+"#binding: expected lemma is no longer bound to property "+id)
					}
					continue
				}
				if done[ln] == nil {
					genFailures = append(genFailures, ln+"#binding: expected function is no longer under contract for property "+id+" (property line lost?)")
				}
			}
		}
	}
	// lemmas
	var all []*Obligation
	for _, p := range propPats {
		if strings.HasPrefix(p, "lemma:") {
			los, err := c.lemmaObligations(strings.TrimPrefix(p, "lemma:"))
			if err != nil {
				genFailures = append(genFailures, p+": "+err.Error())
			}
			all = append(all, los...)
		}
	}
	for _, r := range reports {
		all = append(all, r.Obls...)
	}
	// vacuity covers
	var covers []*Obligation
	for _, r := range reports {
		if len(r.Obls) == 0 {
			continue // nothing was proved about this function, so nothing can be vacuous
		}
		for _, cp := range r.Cover {
			var uses []string
			native := false
			if len(r.Obls) > 0 {
				uses = r.Obls[0].Uses
				native = r.Obls[0].Native
			}
			covers = append(covers, &Obligation{Name: r.Key + "#cover[" + cp.name + "]", Fn: r.Key, Kind: "cover", Query: r.coverQuery(cp), Uses: uses, Native: native})
		}
	}
	prelude := c.prelude()
	genS := time.Since(t0).Seconds() - loadS
	workDir := filepath.Join(verifDir, ".work", id+os.Getenv("VERIF_WORKSUFFIX"))
	os.RemoveAll(workDir)
	want := 1
	if *tier == "thorough" {
		want = 2
	}
	ts := time.Now()
	dischargeAll(all, prelude, workDir, *timeout, 10, want)
	mainS := time.Since(ts).Seconds()
	dischargeAll(covers, prelude, filepath.Join(workDir, "cover"), 1, 10, 1)
	solveS := time.Since(ts).Seconds()
	if os.Getenv("VERIF_TIMING") != "" {
		fmt.Fprintf(os.Stderr, "timing: obligations %.1fs (%d), covers %.1fs (%d), sanity %.1fs\n", mainS, len(all), solveS-mainS, len(covers), sanitySeconds())
	}

	known, _ := loadKnownFindings()
	nDis, nProp := 0, 0
	var failed []*Obligation
	backendWins := map[string]int{}
	var solverMs int64
	for _, o := range all {
		solverMs += o.Ms
		if o.Result == "unsat" {
			nDis++
			backendWins[strings.Split(o.Backend, "+")[0]]++
		} else {
			failed = append(failed, o)
		}
		for _, p := range propPats {
			if globMatch(p, o.Name) {
				nProp++
				break
			}
		}
	}
	var vacuous []string
	retTotal, retDead := map[string]int{}, map[string]int{}
	coverRes := map[string]string{}
	for _, o := range covers {
		coverRes[o.Name] = o.Result
	}
	for _, o := range covers {
		isRet := strings.Contains(o.Name, "#cover[ret")
		if isRet {
			retTotal[o.Fn]++
		}
		if strings.Contains(o.Name, "#cover[before-") {
			continue // only meaningful together with its after- twin
		}
		if strings.Contains(o.Name, "#cover[after-") {
			// the assumed contract of this call refutes its own continuation although the call itself was not proved dead
			if o.Result == "unsat" && coverRes[strings.Replace(o.Name, "#cover[after-", "#cover[before-", 1)] != "unsat" {
				vacuous = append(vacuous, o.Name)
			}
			continue
		}
		if o.Result == "unsat" {
			if isRet {
				retDead[o.Fn]++ // a single unreachable return is fine (e.g. a defensive error path proved dead)
			} else {
				vacuous = append(vacuous, o.Name)
			}
		}
	}
	for fn, n := range retTotal {
		if n > 0 && retDead[fn] == n {
			vacuous = append(vacuous, fn+"#cover[all-returns]")
		}
	}
	sort.Strings(vacuous)
	exit := 0
	replayDir := filepath.Join(verifDir, "replays", id+os.Getenv("VERIF_WORKSUFFIX"))
	os.RemoveAll(replayDir)
	var violations, knownHits []string
	for _, o := range failed {
		isKnown := false
		for _, kf := range known {
			if kf.Property == id && globMatch(kf.Obligation, o.Name) {
				isKnown = true
				knownHits = append(knownHits, fmt.Sprintf("KNOWN-FINDING: property=%s %s (%s)", id, kf.What, o.Name))
			}
		}
		if isKnown {
			continue
		}
		path, suffix := c.makeReplay(id, replayDir, o)
		violations = append(violations, fmt.Sprintf("VIOLATION property=%s replay=%s obligation=%s result=%s%s", id, path, o.Name, o.Result, suffix))
		exit = 1
	}
	for i, gf := range genFailures {
		os.MkdirAll(replayDir, 0o755)
		path := filepath.Join(replayDir, fmt.Sprintf("generation-%d.json", i+1))
		js, _ := json.MarshalIndent(map[string]interface{}{"property": id, "obligation": gf, "kind": "generation/binding failure", "note": "the function can no longer be brought under its contract; undecided by the verifier"}, "", " ")
		os.WriteFile(path, js, 0o644)
		violations = append(violations, fmt.Sprintf("VIOLATION property=%s replay=%s obligation=%s no-failing-input-found", id, path, strings.SplitN(gf, ":", 2)[0]))
		exit = 1
	}
	for i, v := range vacuous {
		os.MkdirAll(replayDir, 0o755)
		path := filepath.Join(replayDir, fmt.Sprintf("vacuity-%d.json", i+1))
		js, _ := json.MarshalIndent(map[string]interface{}{"property": id, "obligation": v, "kind": "vacuity: this program point is unreachable under the contracts (contradictory requires/invariant/assumed contract)"}, "", " ")
		os.WriteFile(path, js, 0o644)
		violations = append(violations, fmt.Sprintf("VIOLATION property=%s replay=%s obligation=%s vacuous-contract no-failing-input-found", id, path, v))
		exit = 1
	}
	// bounded stand-ins (functions outside the verifier's reach): the real function, every input within a stated bound
	boundedNotes = nil
	if *only == "" {
		for _, bs := range boundedChecks(id) {
			note, out, ok := runBounded(bs, *repo, workDir)
			boundedNotes = append(boundedNotes, note)
			if !ok {
				os.MkdirAll(replayDir, 0o755)
				path := filepath.Join(replayDir, "bounded-"+sanitize(bs.test)+".json")
				js, _ := json.MarshalIndent(map[string]interface{}{"property": id, "obligation": "bounded:" + bs.test, "kind": "bounded stand-in on the real code: the failing input is in the test output",
					"bound": bs.bound, "rerun": fmt.Sprintf("go test -overlay <%s injected into %s> -vet=off -run %s %s", bs.file, bs.pkg, bs.test, bs.pkg), "test_output": out}, "", " ")
				os.WriteFile(path, js, 0o644)
				violations = append(violations, fmt.Sprintf("VIOLATION property=%s replay=%s obligation=bounded:%s failing-input-in-replay-file", id, path, bs.test))
				exit = 1
			}
		}
	}
	// structural obligations (syntactic side conditions, counted separately)
	structuralNotes, structuralFns, structuralChecked = nil, nil, 0
	if *only == "" {
		for _, roots := range structuralChecks(id) {
			exempt := map[string]bool{}
			checked, findings, notes := c.structuralNondetFree(roots, exempt)
			structuralNotes = append(structuralNotes, fmt.Sprintf("structural nondet-free: %d functions reachable from the roots %v checked, %d findings", len(checked), roots, len(findings)))
			structuralNotes = append(structuralNotes, notes...)
			structuralChecked += len(checked)
			c.assumptionsUsed["A-DETFRAG (structural): Go code without map ranges, select, goroutines, clock/random/environment reads and pointer-to-integer conversions is a function of its inputs; the KV store iterates in key order; amino/protobuf encoding is a function of the value; code outside this repository (cosmos-sdk, tendermint, bank keeper) is not scanned"] = true
			c.assumptionsUsed["A-SORT (structural): sort.SliceStable/sort.Slice with a pure comparison return a permutation of the input ordered by the comparison; a list of records with pairwise distinct keys ordered by key is unique"] = true
			c.assumptionsUsed["A-CALLGRAPH (structural): calls of function values other than closure literals are not followed; interface calls are resolved to the implementing types of the loaded packages only"] = true
			structuralFns = append(structuralFns, checked...)
			fmt.Println(structuralNotes[len(structuralNotes)-1-len(notes)])
			if len(checked) == 0 {
				findings = append(findings, structFinding{"#roots", "no function matches the configured roots (vacuous structural check)"})
			}
			for i, f := range findings {
				os.MkdirAll(replayDir, 0o755)
				path := filepath.Join(replayDir, fmt.Sprintf("structural-%d.json", i+1))
				js, _ := json.MarshalIndent(map[string]interface{}{"property": id, "obligation": f.fn + "#nondet-free", "kind": "structural obligation: the function left the deterministic fragment", "finding": f.what}, "", " ")
				os.WriteFile(path, js, 0o644)
				violations = append(violations, fmt.Sprintf("VIOLATION property=%s replay=%s obligation=%s#nondet-free %s no-failing-input-found", id, path, f.fn, strings.ReplaceAll(f.what, " ", "_")))
				exit = 1
			}
		}
	}
	sort.Strings(knownHits)
	seenK := map[string]bool{}
	for _, k := range knownHits {
		if !seenK[k] {
			fmt.Println(k)
			seenK[k] = true
		}
	}
	for _, v := range violations {
		fmt.Println(v)
	}
	if *verbose || exit != 0 {
		for _, o := range all {
			if o.Result != "unsat" || *verbose {
				fmt.Printf("  %-8s %-14s %6dms %s\n", o.Result, o.Backend, o.Ms, o.Name)
			}
		}
	}
	writeEvidence(c, id, *tier, seed, reports, all, covers, failed, knownHits, violations, backendWins, solverMs, loadS, genS, solveS, time.Since(t0).Seconds(), nProp)
	fmt.Printf("property %s: %d obligations, %d discharged, %d failed (%d known), %d functions; load %.1fs gen %.1fs solve %.1fs\n",
		id, len(all), nDis, len(failed), len(knownHits), len(reports), loadS, genS, solveS)
	if !*keep && exit == 0 {
		os.RemoveAll(workDir)
	}
	return exit
}

func (r *fnReport) coverQuery(cp coverPoint) string {
	// reuse declarations/definitions of the function's first obligation (all share the prefix)
	if len(r.Obls) == 0 {
		return "(assert false)\n"
	}
	q := r.Obls[len(r.Obls)-1].Query
	// strip the final pc and negated goal, assert the cover pc instead
	lines := strings.Split(strings.TrimRight(q, "\n"), "\n")
	lines = lines[:len(lines)-2]
	return strings.Join(lines, "\n") + "\n(assert " + cp.pc + ")\n"
}

func reportBroken(id, tier string, seed int, msg string, t0 time.Time) int {
	replayDir := filepath.Join(verifDir, "replays", id+os.Getenv("VERIF_WORKSUFFIX"))
	os.MkdirAll(replayDir, 0o755)
	path := filepath.Join(replayDir, "binding.json")
	js, _ := json.MarshalIndent(map[string]interface{}{"property": id, "obligation": "#binding", "error": msg}, "", " ")
	os.WriteFile(path, js, 0o644)
	fmt.Printf("VIOLATION property=%s replay=%s obligation=#binding %s no-failing-input-found\n", id, path, strings.ReplaceAll(msg, "\n", " "))
	ev := map[string]interface{}{"property_id": id, "tier": tier, "seed": seed, "level": manifestLevel(id),
		"coverage": map[string]interface{}{"obligations": 1, "discharged": 0, "checker_cmd": "govc check " + id, "trusted_base": []string{}, "evaluations": 1, "distinct_nontrivial": 0, "explanation": msg},
		"wall_s": time.Since(t0).Seconds(), "violations": 1}
	if !noEvidence {
		os.MkdirAll(filepath.Join(verifDir, "evidence"), 0o755)
		js, _ = json.MarshalIndent(ev, "", " ")
		os.WriteFile(filepath.Join(verifDir, "evidence", id+".json"), js, 0o644)
	}
	return 1
}

func writeEvidence(c *Ctx, id, tier string, seed int, reports []*fnReport, all, covers, failed []*Obligation, knownHits, violations []string,
	wins map[string]int, solverMs int64, loadS, genS, solveS, wall float64, nProp int) {
	var fucs, trusted, dropped, externs []string
	seenD, seenE := map[string]bool{}, map[string]bool{}
	for _, r := range reports {
		if r.Trusted {
			trusted = append(trusted, r.Key)
			continue
		}
		fucs = append(fucs, fmt.Sprintf("%s (%d obligations, %d loops)", r.Key, len(r.Obls), r.Loops))
		for _, d := range r.Dropped {
			if !seenD[d] {
				seenD[d] = true
				dropped = append(dropped, d)
			}
		}
		for _, e := range r.Externs {
			if !seenE[e] {
				seenE[e] = true
				externs = append(externs, e)
			}
		}
	}
	sort.Strings(dropped)
	sort.Strings(externs)
	nDis := 0
	var samples []map[string]interface{}
	for _, o := range all {
		if o.Result == "unsat" {
			nDis++
		}
	}
	for i, o := range all {
		if i%(len(all)/6+1) == 0 {
			samples = append(samples, map[string]interface{}{"obligation": o.Name, "contract": o.Src, "result": o.Result, "backend": o.Backend, "ms": o.Ms})
		}
	}
	var axioms []string
	for _, a := range c.axioms {
		axioms = append(axioms, "axiom "+a.Name+": "+strings.TrimSpace(a.Src))
	}
	var uninterp []string
	for _, n := range c.specOrder {
		if strings.HasPrefix(c.compiled[n].def, "(declare-fun") {
			uninterp = append(uninterp, "uninterpreted spec function "+n)
		}
	}
	tb := []string{"go/packages + go/types + go/ssa (x/tools v0.29.0) as the semantics of the source", "govc VC generator (instruction semantics, memory model)", "SMT solvers z3 5.1.0 / z3 4.8.12 / cvc5 1.0.3"}
	for _, e := range externs {
		tb = append(tb, "assumed contract (extern): "+e)
	}
	for _, t := range trusted {
		tb = append(tb, "trusted contract (body not verified): "+t)
	}
	tb = append(tb, axioms...)
	tb = append(tb, uninterp...)
	assumptions := []string{
		"A-ARITH: Go fixed-width integer arithmetic is treated as mathematical (no wrap-around); inputs are range-constrained",
		"A-BIG: sdk.Int / big.Int are unbounded mathematical integers; the 2^255 overflow panic of sdk.Int is not modelled",
		"A-TERM: partial correctness only; paths that panic are cut unless the function is marked nopanic",
		"[]byte values are modelled as immutable byte strings (no aliasing between byte slices)",
	}
	for a := range c.assumptionsUsed {
		assumptions = append(assumptions, a)
	}
	for _, d := range dropped {
		assumptions = append(assumptions, "dropped call (no effect on modelled state): "+d)
	}
	sort.Strings(assumptions[4:])
	var failedNames []string
	for _, o := range failed {
		failedNames = append(failedNames, o.Name+" ("+o.Result+")")
	}
	nVac := 0
	for _, o := range covers {
		if o.Result == "unsat" {
			nVac++
		}
	}
	// the ten slowest discharged obligations (proof stability is watched here: anything near the timeout is fragile)
	sl := append([]*Obligation{}, all...)
	sort.SliceStable(sl, func(i, j int) bool { return sl[i].Ms > sl[j].Ms })
	var slowest []string
	for i := 0; i < len(sl) && i < 10; i++ {
		slowest = append(slowest, fmt.Sprintf("%s %dms %s", sl[i].Name, sl[i].Ms, sl[i].Backend))
	}
	cov := map[string]interface{}{
		"slowest":     slowest,
		"obligations": len(all), "discharged": nDis,
		"checker_cmd":  "bin/check " + id + " " + tier,
		"trusted_base": tb, "samples": samples,
		"functions_under_contract": fucs, "property_obligations": nProp, "property_roots": evidenceRoots, "lemmas_bound": evidenceLemmas,
		"backend_wins": wins, "solver_ms_total": solverMs,
		"phase_seconds": map[string]float64{"load": loadS, "generate": genS, "solve": solveS},
		"failed":        failedNames, "known_findings_hit": knownHits,
		"vacuity_covers_checked": len(covers), "vacuous": nVac,
		"evaluations": len(all), "distinct_nontrivial": nDis,
		"rule": "one SMT query per obligation (postcondition conjunct per return, callee precondition, loop invariant init/preservation, frame); non-trivial = discharged as unsat by a solver; names are unique",
		"bounded": append([]string{}, boundedNotes...),
		"structural": append([]string{}, structuralNotes...), "structural_functions_checked": structuralChecked, "structural_functions": append([]string{}, structuralFns...),
	}
	ev := map[string]interface{}{"property_id": id, "tier": tier, "seed": seed, "level": manifestLevel(id), "coverage": cov,
		"assumptions": assumptions, "wall_s": wall, "violations": len(violations)}
	if noEvidence {
		return
	}
	os.MkdirAll(filepath.Join(verifDir, "evidence"), 0o755)
	js, _ := json.MarshalIndent(ev, "", " ")
	os.WriteFile(filepath.Join(verifDir, "evidence", id+".json"), js, 0o644)
}


// manifestLevel: the level category the MANIFEST claims for this property (evidence must carry the same one).
func manifestLevel(id string) string {
	data, err := os.ReadFile(filepath.Join(verifDir, "MANIFEST.json"))
	if err != nil {
		return "proof"
	}
	var m struct {
		Checks []struct {
			PropertyID   string `json:"property_id"`
			LevelClaimed struct {
				Category string `json:"category"`
			} `json:"level_claimed"`
		} `json:"checks"`
	}
	if json.Unmarshal(data, &m) != nil {
		return "proof"
	}
	for _, c := range m.Checks {
		if c.PropertyID == id && c.LevelClaimed.Category != "" {
			return c.LevelClaimed.Category
		}
	}
	return "proof"
}

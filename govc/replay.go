package main

import (
	"context"
	"encoding/json"
	"fmt"
	"go/types"
	"os"
	"os/exec"
	"path/filepath"
	"regexp"
	"strconv"
	"strings"
	"time"
)

// makeReplay writes the replay file of a failed obligation and, when the solver
// produced a model and a replay template exists for the function, replays the
// counterexample against the real code.  It returns the path and the suffix of
// the VIOLATION line ("" when reproduced, " no-failing-input-found" otherwise).
func (c *Ctx) makeReplay(id, dir string, o *Obligation) (string, string) {
	os.MkdirAll(dir, 0o755)
	name := sanitize(strings.ReplaceAll(o.Name, "/", "_"))
	if len(name) > 150 {
		name = name[len(name)-150:]
	}
	path := filepath.Join(dir, name+".json")
	rec := map[string]interface{}{
		"property": id, "obligation": o.Name, "kind": o.Kind, "contract": o.Src, "contract_at": o.Where,
		"solver_result": o.Result, "backend": o.Backend, "solver_output": truncate(o.Model, 20000), "all_backends": o.All,
		"smt_file": o.File,
	}
	suffix := " no-failing-input-found"
	if o.Result == "sat" {
		model := parseGetValue(o.Model, o.Inputs)
		rec["model_inputs"] = model
		if ok, out, test := c.replayModel(id, o, model); test != "" {
			rec["replay_test"] = test
			rec["replay_output"] = truncate(out, 20000)
			rec["reproduced"] = ok
			if ok {
				suffix = ""
			}
		}
	}
	js, _ := json.MarshalIndent(rec, "", " ")
	os.WriteFile(path, js, 0o644)
	return path, suffix
}

func truncate(s string, n int) string {
	if len(s) > n {
		return s[:n] + "…"
	}
	return s
}

// parseGetValue extracts ((term value) ...) pairs from solver output.
func parseGetValue(out string, inputs []modelVar) map[string]string {
	res := map[string]string{}
	i := strings.Index(out, "((")
	if i < 0 {
		return res
	}
	sx := parseSexps(out[i:])
	if len(sx) == 0 {
		return res
	}
	for _, pair := range sx[0].list {
		if len(pair.list) == 2 {
			t := pair.list[0].String()
			for _, in := range inputs {
				if in.Term == t {
					res[in.Name] = pair.list[1].String()
				}
			}
		}
	}
	return res
}

type sexp struct {
	atom string
	list []*sexp
	isList bool
}

func (s *sexp) String() string {
	if !s.isList {
		return s.atom
	}
	var ps []string
	for _, x := range s.list {
		ps = append(ps, x.String())
	}
	return "(" + strings.Join(ps, " ") + ")"
}

func parseSexps(src string) []*sexp {
	var out []*sexp
	pos := 0
	var parse func() *sexp
	skip := func() {
		for pos < len(src) && (src[pos] == ' ' || src[pos] == '\n' || src[pos] == '\t' || src[pos] == '\r') {
			pos++
		}
	}
	parse = func() *sexp {
		skip()
		if pos >= len(src) {
			return nil
		}
		if src[pos] == '(' {
			pos++
			n := &sexp{isList: true}
			for {
				skip()
				if pos >= len(src) {
					return n
				}
				if src[pos] == ')' {
					pos++
					return n
				}
				c := parse()
				if c == nil {
					return n
				}
				n.list = append(n.list, c)
			}
		}
		start := pos
		if src[pos] == '"' {
			pos++
			for pos < len(src) {
				if src[pos] == '"' {
					if pos+1 < len(src) && src[pos+1] == '"' {
						pos += 2
						continue
					}
					pos++
					break
				}
				pos++
			}
			return &sexp{atom: src[start:pos]}
		}
		if src[pos] == '|' {
			pos++
			for pos < len(src) && src[pos] != '|' {
				pos++
			}
			pos++
			return &sexp{atom: src[start:pos]}
		}
		for pos < len(src) && !strings.ContainsRune(" \n\t\r()", rune(src[pos])) {
			pos++
		}
		return &sexp{atom: src[start:pos]}
	}
	for {
		skip()
		if pos >= len(src) || src[pos] != '(' {
			break
		}
		out = append(out, parse())
	}
	return out
}

// replayModel replays a counterexample of a no-panic obligation against the real function: the function is called with
// the model's argument values inside the real package (a test file injected with `go test -overlay`, nothing is written
// to the repository) and the violation counts as reproduced if the call panics.  Supported: package-level functions
// whose parameters are integers, booleans, strings or byte slices (strings outside the native string theory are
// uninterpreted, so only their length is taken from the model; the content is filler).  Everything else is reported
// without replay (no-failing-input-found).
func (c *Ctx) replayModel(id string, o *Obligation, model map[string]string) (bool, string, string) {
	if o.Kind != "nopanic" && !strings.Contains(o.Name, "#nopanic[") {
		return false, "", ""
	}
	fn := c.findFunc(o.Fn)
	if fn == nil || fn.Signature.Recv() != nil || fn.Parent() != nil || fn.Pkg == nil {
		return false, "", ""
	}
	pkgPath := fn.Pkg.Pkg.Path()
	if !strings.HasPrefix(pkgPath, repoModule) {
		return false, "", ""
	}
	var args []string
	imports := map[string]bool{}
	for _, p := range fn.Params {
		v, ok := model[p.Name()]
		var lit string
		switch t := p.Type().Underlying().(type) {
		case *types.Basic:
			switch {
			case t.Info()&types.IsInteger != 0:
				if !ok {
					return false, "", ""
				}
				n := smtInt(v)
				if n == "" {
					return false, "", ""
				}
				lit = types.TypeString(p.Type(), func(pk *types.Package) string { return "" }) + "(" + n + ")"
				if strings.Contains(lit, ".") {
					return false, "", ""
				}
			case t.Info()&types.IsBoolean != 0:
				if v != "true" && v != "false" {
					return false, "", ""
				}
				lit = v
			case t.Info()&types.IsString != 0:
				sv, ok2 := modelString(model, p.Name())
				if !ok2 {
					return false, "", ""
				}
				lit = strconvQuote(sv)
			default:
				return false, "", ""
			}
		case *types.Slice:
			if b, isB := t.Elem().Underlying().(*types.Basic); !isB || b.Kind() != types.Byte {
				return false, "", ""
			}
			sv, ok2 := modelString(model, p.Name())
			if !ok2 {
				return false, "", ""
			}
			lit = "[]byte(" + strconvQuote(sv) + ")"
		default:
			return false, "", ""
		}
		args = append(args, lit)
	}
	_ = imports
	var b strings.Builder
	fmt.Fprintf(&b, "package %s\n\nimport \"testing\"\n\n", fn.Pkg.Pkg.Name())
	fmt.Fprintf(&b, "// generated by govc: replay of %s\nfunc TestVerifReplayModel(t *testing.T) {\n", o.Name)
	b.WriteString("\tdefer func() {\n\t\tif r := recover(); r != nil {\n\t\t\tt.Fatalf(\"VERIF-REPRODUCED: panic: %v\", r)\n\t\t}\n\t}()\n")
	fmt.Fprintf(&b, "\t%s(%s)\n}\n", fn.Name(), strings.Join(args, ", "))
	test := b.String()
	work := filepath.Join(verifDir, ".work", id+os.Getenv("VERIF_WORKSUFFIX")+"-replay")
	os.MkdirAll(work, 0o755)
	src := filepath.Join(work, sanitize(o.Name)+"_test.go")
	if len(src) > 200 {
		src = filepath.Join(work, fmt.Sprintf("replay%d_test.go", len(o.Name)))
	}
	os.WriteFile(src, []byte(test), 0o644)
	rel := strings.TrimPrefix(strings.TrimPrefix(pkgPath, repoModule), "/")
	target := filepath.Join(c.repo, rel, "zz_verif_replay_test.go")
	ov := src + ".overlay.json"
	js, _ := json.Marshal(map[string]interface{}{"Replace": map[string]string{target: src}})
	os.WriteFile(ov, js, 0o644)
	ctx, cancel := context.WithTimeout(context.Background(), 5*time.Minute)
	defer cancel()
	cmd := exec.CommandContext(ctx, "go", "test", "-overlay", ov, "-vet=off", "-count=1", "-timeout", "60s", "-run", "^TestVerifReplayModel$", "./"+rel)
	cmd.Dir = c.repo
	cmd.Env = append(os.Environ(), "GOFLAGS=-mod=mod", "GOPROXY=off", "GOSUMDB=off", "GOTOOLCHAIN=local")
	outb, _ := cmd.CombinedOutput()
	out := string(outb)
	return strings.Contains(out, "VERIF-REPRODUCED"), out, test
}

func smtInt(v string) string {
	v = strings.TrimSpace(v)
	if strings.HasPrefix(v, "(-") && strings.HasSuffix(v, ")") {
		n := strings.TrimSpace(v[2 : len(v)-1])
		if _, err := strconv.ParseInt(n, 10, 64); err == nil {
			return "-" + n
		}
		return ""
	}
	if _, err := strconv.ParseUint(v, 10, 64); err == nil {
		return v
	}
	return ""
}

// modelString: the value of a string-sorted input: its literal in the native theory, otherwise filler of the model's length.
func modelString(model map[string]string, name string) (string, bool) {
	if v, ok := model[name]; ok && strings.HasPrefix(v, "\"") && strings.HasSuffix(v, "\"") && len(v) >= 2 {
		return smtUnquote(v), true
	}
	if l, ok := model[name+"#len"]; ok {
		n, err := strconv.Atoi(smtInt(l))
		if err != nil || n < 0 || n > 1<<20 {
			return "", false
		}
		return strings.Repeat("A", n), true
	}
	return "", false
}

func smtUnquote(v string) string {
	v = strings.ReplaceAll(v[1:len(v)-1], "\"\"", "\"")
	re := regexp.MustCompile(`\\u\{([0-9a-fA-F]+)\}`)
	return re.ReplaceAllStringFunc(v, func(m string) string {
		n, _ := strconv.ParseInt(re.FindStringSubmatch(m)[1], 16, 32)
		if n < 256 {
			return string([]byte{byte(n)}) // strings model byte sequences: one character = one byte
		}
		return string(rune(n))
	})
}

func strconvQuote(s string) string { return strconv.Quote(s) }

func cmdReplay(args []string) int {
	if len(args) < 1 {
		fmt.Fprintln(os.Stderr, "usage: govc replay <file>")
		return 2
	}
	data, err := os.ReadFile(args[0])
	if err != nil {
		fmt.Fprintln(os.Stderr, err)
		return 2
	}
	fmt.Println(string(data))
	return 0
}


package main

import (
	"encoding/json"
	"fmt"
	"os"
	"path/filepath"
	"strings"
)

// makeReplay writes the replay file of a failed obligation and, when the solver
// produced a model and a replay template exists for the function, replays the
// counterexample against the real code.  It returns the path and the suffix of
// the VIOLATION line ("" when reproduced, " no-failing-input-found" otherwise).
func (c *Ctx) makeReplay(id, dir string, o *Obligation) (string, string) {
	os.MkdirAll(dir, 0o755)
	name := sanitize(strings.ReplaceAll(o.Name, "/", "_"))
	if len(name) > 150 {
		name = name[len(name)-150:]
	}
	path := filepath.Join(dir, name+".json")
	rec := map[string]interface{}{
		"property": id, "obligation": o.Name, "kind": o.Kind, "contract": o.Src, "contract_at": o.Where,
		"solver_result": o.Result, "backend": o.Backend, "solver_output": truncate(o.Model, 20000), "all_backends": o.All,
		"smt_file": o.File,
	}
	suffix := " no-failing-input-found"
	if o.Result == "sat" {
		model := parseGetValue(o.Model, o.Inputs)
		rec["model_inputs"] = model
		if ok, out, test := c.replayModel(id, o, model); test != "" {
			rec["replay_test"] = test
			rec["replay_output"] = truncate(out, 20000)
			rec["reproduced"] = ok
			if ok {
				suffix = ""
			}
		}
	}
	js, _ := json.MarshalIndent(rec, "", " ")
	os.WriteFile(path, js, 0o644)
	return path, suffix
}

func truncate(s string, n int) string {
	if len(s) > n {
		return s[:n] + "…"
	}
	return s
}

// parseGetValue extracts ((term value) ...) pairs from solver output.
func parseGetValue(out string, inputs []modelVar) map[string]string {
	res := map[string]string{}
	i := strings.Index(out, "((")
	if i < 0 {
		return res
	}
	sx := parseSexps(out[i:])
	if len(sx) == 0 {
		return res
	}
	for _, pair := range sx[0].list {
		if len(pair.list) == 2 {
			t := pair.list[0].String()
			for _, in := range inputs {
				if in.Term == t {
					res[in.Name] = pair.list[1].String()
				}
			}
		}
	}
	return res
}

type sexp struct {
	atom string
	list []*sexp
	isList bool
}

func (s *sexp) String() string {
	if !s.isList {
		return s.atom
	}
	var ps []string
	for _, x := range s.list {
		ps = append(ps, x.String())
	}
	return "(" + strings.Join(ps, " ") + ")"
}

func parseSexps(src string) []*sexp {
	var out []*sexp
	pos := 0
	var parse func() *sexp
	skip := func() {
		for pos < len(src) && (src[pos] == ' ' || src[pos] == '\n' || src[pos] == '\t' || src[pos] == '\r') {
			pos++
		}
	}
	parse = func() *sexp {
		skip()
		if pos >= len(src) {
			return nil
		}
		if src[pos] == '(' {
			pos++
			n := &sexp{isList: true}
			for {
				skip()
				if pos >= len(src) {
					return n
				}
				if src[pos] == ')' {
					pos++
					return n
				}
				c := parse()
				if c == nil {
					return n
				}
				n.list = append(n.list, c)
			}
		}
		start := pos
		if src[pos] == '"' {
			pos++
			for pos < len(src) {
				if src[pos] == '"' {
					if pos+1 < len(src) && src[pos+1] == '"' {
						pos += 2
						continue
					}
					pos++
					break
				}
				pos++
			}
			return &sexp{atom: src[start:pos]}
		}
		if src[pos] == '|' {
			pos++
			for pos < len(src) && src[pos] != '|' {
				pos++
			}
			pos++
			return &sexp{atom: src[start:pos]}
		}
		for pos < len(src) && !strings.ContainsRune(" \n\t\r()", rune(src[pos])) {
			pos++
		}
		return &sexp{atom: src[start:pos]}
	}
	for {
		skip()
		if pos >= len(src) || src[pos] != '(' {
			break
		}
		out = append(out, parse())
	}
	return out
}

func (c *Ctx) replayModel(id string, o *Obligation, model map[string]string) (bool, string, string) {
	return false, "", ""
}

func cmdReplay(args []string) int {
	if len(args) < 1 {
		fmt.Fprintln(os.Stderr, "usage: govc replay <file>")
		return 2
	}
	data, err := os.ReadFile(args[0])
	if err != nil {
		fmt.Fprintln(os.Stderr, err)
		return 2
	}
	fmt.Println(string(data))
	return 0
}


package main

// Parser for the contract language (DESIGN.md 3.3 / Appendix B).  Contracts are
// `//@` comment lines; an item or clause starts with a keyword, any other `//@`
// line continues the previous clause.

import (
	"fmt"
	"os"
	"regexp"
	"strconv"
	"strings"
)

// ---------- AST ----------

type Expr interface{}

type (
	EIdent struct{ Name string }
	EInt   struct{ Val string }
	EStr   struct{ Val string }
	EBool  struct{ Val bool }
	ENil   struct{}
	EBin   struct {
		Op   string
		L, R Expr
	}
	EUn struct {
		Op string
		X  Expr
	}
	ECall struct {
		Fun  string
		Args []Expr
	}
	EField struct {
		X    Expr
		Name string
	}
	EIndex struct{ X, I Expr }
	ESlice struct{ X, Lo, Hi Expr }
	EQuant struct {
		Forall   bool
		Vars     []Param
		Body     Expr
		Triggers []Expr // explicit multi-pattern (axioms)
	}
	ELet struct {
		Name      string
		Val, Body Expr
	}
	EStar   struct {
		X   Expr
		All bool // s[**]: every element of the backing array (in-place append beyond len)
	} // locset s[*] (only in modifies)
	EUpdate struct{ X, K, V Expr }
)

type Param struct {
	Name string
	Sort string // sort expression text
}

type Clause struct {
	Label   string
	Assumed bool // `ensures assumed ...`: given to callers, not checked in the body (listed as an assumption)
	E       Expr
	Src   string
	Where string // file:line
}

type LoopContract struct {
	Invariants []Clause
	Modifies   []Clause
	HasMod     bool
}

type GhostDecl struct {
	Name    string
	Sort    string
	Init    Expr
	Scratch bool // not subject to frame conditions; havoc'd by every non-pure call
	File    *SpecFile // resolution context of package-qualified sorts (generated ghosts)
}

type FuncContract struct {
	Name     string // e.g. "accountSettleFullblocks", "(*keeper).PaymentClose", "(*order).run$1"
	PkgPath  string
	Requires []Clause
	Ensures  []Clause
	Modifies []Clause
	HasMod   bool
	Loops    map[int]*LoopContract
	Calls    map[int]*LoopContract // call-site invariants for iterators
	Ghosts   []GhostDecl
	NoPanic  bool
	NoPanicExplicitOnly bool // only explicit panic(...) statements must be unreachable
	Trusted  bool
	Pure     bool
	Where    string
	// extern-only
	Extern bool
	Params []string // declared parameter names for externs (receiver first when a method)
	Cuts   []Clause // normal return only if these hold (otherwise the callee panics)
	Fresh  bool     // result is a freshly allocated object
	Uses   []string // lemmas made available to the proof of this function
	Theory string   // "strings": discharge this function's obligations with the native SMT string theory
	SelectGhost []SelectGhost // ghost updates attached to select cases
	CallHooks   []CallHook
	Iterates    *IterSpec
	IterEnsures []Clause // generated from Iterates; obligations of the iterator function itself only
}

// IterSpec: `iterates fn over <store key>, <prefix> as <T>` - the function calls its parameter fn once on
// decode(T, v) for every record (k,v) of the store (as of entry) whose key has the prefix, in key order,
// until fn returns true, and does nothing else observable.
type IterSpec struct {
	Fn            string
	Store, Prefix Expr
	StoreSrc, PrefixSrc, Type string
	Where         string
}

// CallHook: at the K-th call (source order) of the callee whose short key is Callee
// (e.g. "runner.Do", "cluster.(Cluster).Unreserve"): ghost update or assertion, evaluated right after the call.
// Callee "<-" denotes the K-th unary channel receive.
type CallHook struct {
	Callee     string
	K          int
	Ghost      string // "" for an assertion
	E          Expr
	Src, Where string
}

// SelectGhost: when case Case (0-based, source order) of the Select-th select statement fires, Ghost := E.
type SelectGhost struct {
	Select, Case int
	Ghost        string
	E            Expr
	Src, Where   string
}

type SpecFun struct {
	Abstract bool // like opaque, but the defining axiom is only available under `uses def:<name>` and in native-theory lemma proofs
	Native string // SMT body used when the native string theory is on (parameters a_<name>)
	Opaque bool
	Name   string
	Params []Param
	Ret    string
	Body   Expr
	Src    string
	Where  string
}

type Axiom struct {
	Name  string
	E     Expr
	Src   string
	Where string
}

type Lemma struct {
	Name     string
	Params   []Param
	Induct   string
	Requires []Clause
	Ensures  []Clause
	Triggers []Clause
	TrigGroups [][]Clause // one multi-pattern per `trigger` line (alternatives)
	Where    string
	Theory   string // "strings": proved with the native SMT string theory
	Auto     bool   // assumed wherever its symbols occur (like an axiom), not only under `uses`
	Uses     []string // def:<spec> - abstract definitions revealed in this lemma's own proof
	Untyped  bool     // proved, and usable, without the Go type invariants of its parameters (integer ranges)
}

type PropertyMap struct {
	ID       string
	Patterns []string
	Where    string
}

type OpaqueDecl struct {
	GoType string
	Sort   string
}

type SpecFile struct {
	Path    string
	PkgPath string // set for contract files inside /repo packages
	Funcs   []*FuncContract
	Specs   []*SpecFun
	Axioms  []*Axiom
	Lemmas  []*Lemma
	Props   []*PropertyMap
	Opaques []OpaqueDecl
	Ghosts  []GhostDecl
	Theory  string
	Imports map[string]string
	Binds   [][2]string // interface type => concrete type (wiring assumption A-WIRE)
	Globals [][2]string // pkgalias.Var, string value: package-level string variable of a dependency assumed to keep this value
}

// ---------- lexer ----------

type tok struct {
	kind string // id int str op eof
	val  string
}

var tokRe = regexp.MustCompile(`^(\s+|[A-Za-z_][A-Za-z0-9_]*|[0-9]+|"(?:[^"\\]|\\.)*"|<==>|==>|:=|::|==|!=|<=|>=|&&|\|\||[-+*/%!<>()\[\],.:{}$#@|&])`)

func lex(s string) ([]tok, error) {
	var out []tok
	for len(s) > 0 {
		m := tokRe.FindString(s)
		if m == "" {
			return nil, fmt.Errorf("cannot tokenize at %q", s)
		}
		s = s[len(m):]
		c := m[0]
		switch {
		case c == ' ' || c == '\t' || c == '\n' || c == '\r':
		case c >= '0' && c <= '9':
			out = append(out, tok{"int", m})
		case c == '"':
			u, err := strconv.Unquote(m)
			if err != nil {
				return nil, err
			}
			out = append(out, tok{"str", u})
		case c == '_' || (c >= 'a' && c <= 'z') || (c >= 'A' && c <= 'Z'):
			out = append(out, tok{"id", m})
		default:
			out = append(out, tok{"op", m})
		}
	}
	out = append(out, tok{"eof", ""})
	return out, nil
}

type parser struct {
	toks []tok
	pos  int
}

func (p *parser) peek() tok { return p.toks[p.pos] }
func (p *parser) next() tok { t := p.toks[p.pos]; p.pos++; return t }
func (p *parser) isOp(v string) bool {
	t := p.peek()
	return t.kind == "op" && t.val == v
}
func (p *parser) isID(v string) bool {
	t := p.peek()
	return t.kind == "id" && t.val == v
}
func (p *parser) expectOp(v string) {
	if !p.isOp(v) {
		panic(fmt.Errorf("expected %q, got %q", v, p.peek().val))
	}
	p.pos++
}
func (p *parser) ident() string {
	t := p.next()
	if t.kind != "id" {
		panic(fmt.Errorf("expected identifier, got %q", t.val))
	}
	return t.val
}

var binPrec = map[string]int{
	"<==>": 1, "==>": 2, "||": 3, "&&": 4,
	"==": 5, "!=": 5, "<": 5, "<=": 5, ">": 5, ">=": 5,
	"+": 6, "-": 6, "*": 7, "/": 7, "%": 7,
}

func (p *parser) expr(minPrec int) Expr {
	lhs := p.unary()
	for {
		t := p.peek()
		if t.kind != "op" {
			return lhs
		}
		prec, ok := binPrec[t.val]
		if !ok || prec < minPrec {
			return lhs
		}
		p.pos++
		var rhs Expr
		if t.val == "==>" { // right assoc
			rhs = p.expr(prec)
		} else {
			rhs = p.expr(prec + 1)
		}
		lhs = &EBin{t.val, lhs, rhs}
	}
}

func (p *parser) unary() Expr {
	t := p.peek()
	if t.kind == "op" {
		switch t.val {
		case "!", "-":
			p.pos++
			return &EUn{t.val, p.unary()}
		case "*":
			p.pos++
			return &EUn{"*", p.unary()}
		}
	}
	if t.kind == "id" {
		switch t.val {
		case "forall", "exists":
			p.pos++
			var vars []Param
			for {
				n := p.ident()
				p.expectOp(":")
				s := p.sortExpr()
				vars = append(vars, Param{n, s})
				if p.isOp(",") {
					p.pos++
					continue
				}
				break
			}
			// optional explicit multi-pattern: forall x: T {t1, t2} :: body
			var trigs []Expr
			if p.isOp("{") {
				p.pos++
				for {
					trigs = append(trigs, p.expr(0))
					if p.isOp(",") {
						p.pos++
						continue
					}
					break
				}
				p.expectOp("}")
			}
			p.expectOp("::")
			body := p.expr(0)
			return &EQuant{Forall: t.val == "forall", Vars: vars, Body: body, Triggers: trigs}
		case "let":
			p.pos++
			n := p.ident()
			p.expectOp(":=")
			v := p.expr(0)
			p.expectOp("::")
			body := p.expr(0)
			return &ELet{n, v, body}
		}
	}
	return p.postfix(p.primary())
}

func (p *parser) primary() Expr {
	t := p.next()
	switch t.kind {
	case "int":
		return &EInt{t.val}
	case "str":
		return &EStr{t.val}
	case "id":
		switch t.val {
		case "true":
			return &EBool{true}
		case "false":
			return &EBool{false}
		case "nil":
			return &ENil{}
		}
		if p.isOp("(") {
			p.pos++
			var args []Expr
			for !p.isOp(")") {
				args = append(args, p.expr(0))
				if p.isOp(",") {
					p.pos++
				}
			}
			p.expectOp(")")
			return &ECall{t.val, args}
		}
		return &EIdent{t.val}
	case "op":
		if t.val == "(" {
			e := p.expr(0)
			p.expectOp(")")
			return e
		}
	}
	panic(fmt.Errorf("unexpected tok %q", t.val))
}

func (p *parser) postfix(e Expr) Expr {
	for {
		switch {
		case p.isOp("."):
			p.pos++
			name := p.ident()
			if p.isOp("(") { // qualified spec function call pkg.f(...) is not supported; method-like call
				panic(fmt.Errorf("method call syntax not supported: .%s(", name))
			}
			e = &EField{e, name}
		case p.isOp("["):
			p.pos++
			if p.isOp("*") {
				p.pos++
				all := false
				if p.isOp("*") {
					p.pos++
					all = true
				}
				p.expectOp("]")
				e = &EStar{X: e, All: all}
				continue
			}
			var lo Expr
			if !p.isOp(":") {
				lo = p.expr(0)
			}
			if p.isOp(":=") {
				p.pos++
				nv := p.expr(0)
				p.expectOp("]")
				e = &EUpdate{e, lo, nv}
				continue
			}
			if p.isOp(":") {
				p.pos++
				var hi Expr
				if !p.isOp("]") {
					hi = p.expr(0)
				}
				p.expectOp("]")
				e = &ESlice{e, lo, hi}
				continue
			}
			p.expectOp("]")
			e = &EIndex{e, lo}
		default:
			return e
		}
	}
}

// sortExpr consumes a sort expression and returns its text: int, bool, str,
// ref, []T, *T, map[K]V, pkg.Name, Name
func (p *parser) sortExpr() string {
	switch {
	case p.isOp("["):
		p.pos++
		p.expectOp("]")
		return "[]" + p.sortExpr()
	case p.isOp("*"):
		p.pos++
		return "*" + p.sortExpr()
	}
	n := p.ident()
	if n == "map" {
		p.expectOp("[")
		k := p.sortExpr()
		p.expectOp("]")
		v := p.sortExpr()
		return "map[" + k + "]" + v
	}
	if p.isOp(".") {
		p.pos++
		return n + "." + p.ident()
	}
	return n
}

func parseExpr(src string) (e Expr, err error) {
	defer func() {
		if r := recover(); r != nil {
			if er, ok := r.(error); ok {
				err = fmt.Errorf("%v in %q", er, src)
				return
			}
			panic(r)
		}
	}()
	toks, err := lex(src)
	if err != nil {
		return nil, err
	}
	p := &parser{toks: toks}
	e = p.expr(0)
	if p.peek().kind != "eof" {
		return nil, fmt.Errorf("trailing input %q in %q", p.peek().val, src)
	}
	return e, nil
}

// ---------- file level ----------

var itemKw = map[string]bool{"func": true, "extern": true, "spec": true, "axiom": true, "lemma": true,
	"property": true, "opaque": true, "ghost": true, "theory": true, "import": true, "bind": true, "global": true}
var clauseKw = map[string]bool{"requires": true, "ensures": true, "modifies": true, "loop": true, "call": true,
	"nopanic": true, "trusted": true, "pure": true, "cut": true, "induction": true, "fresh": true, "trigger": true, "uses": true, "auto": true, "select": true, "oncall": true, "onrecv": true, "onsend": true, "iterates": true, "untyped": true}

type rawLine struct {
	kw    string
	text  string
	where string
}

func readSpecLines(path string) ([]rawLine, error) {
	data, err := os.ReadFile(path)
	if err != nil {
		return nil, err
	}
	var out []rawLine
	for i, ln := range strings.Split(string(data), "\n") {
		t := strings.TrimSpace(ln)
		if !strings.HasPrefix(t, "//@") {
			continue
		}
		t = strings.TrimSpace(t[3:])
		if t == "" || strings.HasPrefix(t, "//") {
			continue
		}
		if j := strings.Index(t, " //"); j >= 0 && !strings.Contains(t[:j], `"`) {
			t = strings.TrimSpace(t[:j])
		}
		first := t
		if j := strings.IndexAny(t, " \t("); j >= 0 {
			first = t[:j]
		}
		if itemKw[first] || clauseKw[first] {
			out = append(out, rawLine{first, strings.TrimSpace(t[len(first):]), fmt.Sprintf("%s:%d", path, i+1)})
		} else {
			if len(out) == 0 {
				return nil, fmt.Errorf("%s:%d: continuation line without clause", path, i+1)
			}
			out[len(out)-1].text += " " + t
		}
	}
	return out, nil
}

var labelRe = regexp.MustCompile(`^\[([A-Za-z_][A-Za-z0-9_]*)\]\s*`)

func parseClause(l rawLine) (Clause, error) {
	c := Clause{Where: l.where}
	txt := l.text
	if strings.HasPrefix(txt, "assumed ") {
		c.Assumed = true
		txt = strings.TrimSpace(txt[len("assumed "):])
	}
	if m := labelRe.FindStringSubmatch(txt); m != nil {
		c.Label = m[1]
		txt = txt[len(m[0]):]
	}
	c.Src = txt
	e, err := parseExpr(txt)
	if err != nil {
		return c, fmt.Errorf("%s: %v", l.where, err)
	}
	c.E = e
	return c, nil
}

func parseParams(s string) ([]Param, error) {
	s = strings.TrimSpace(s)
	if s == "" {
		return nil, nil
	}
	toks, err := lex(s)
	if err != nil {
		return nil, err
	}
	p := &parser{toks: toks}
	var out []Param
	var perr error
	func() {
		defer func() {
			if r := recover(); r != nil {
				perr = fmt.Errorf("%v", r)
			}
		}()
		for p.peek().kind != "eof" {
			n := p.ident()
			p.expectOp(":")
			out = append(out, Param{n, p.sortExpr()})
			if p.isOp(",") {
				p.pos++
			}
		}
	}()
	return out, perr
}

var funcHeadRe = regexp.MustCompile(`^(\(\*?[A-Za-z_][A-Za-z0-9_]*\)\.)?[A-Za-z_][A-Za-z0-9_]*(\$[0-9]+)*$`)
var externHeadRe = regexp.MustCompile(`^(?:"([^"]+)"|([A-Za-z_][A-Za-z0-9_]*))\.((\(\*?[A-Za-z_][A-Za-z0-9_]*\)\.)?[A-Za-z_][A-Za-z0-9_]*)\(([^)]*)\)$`)
var specHeadRe = regexp.MustCompile(`^([A-Za-z_][A-Za-z0-9_]*)\((.*?)\)\s*:\s*([^=]+?)\s*(=\s*(.*))?$`)

func parseSpecFile(path string) (*SpecFile, error) {
	lines, err := readSpecLines(path)
	if err != nil {
		return nil, err
	}
	sf := &SpecFile{Path: path, Imports: map[string]string{}}
	var cur *FuncContract
	var curLemma *Lemma
	var curAxiom *Axiom
	for _, l := range lines {
		if itemKw[l.kw] && !(l.kw == "theory" && (curLemma != nil || cur != nil)) {
			cur, curLemma, curAxiom = nil, nil, nil
		}
		switch l.kw {
		case "theory":
			if curLemma != nil {
				curLemma.Theory = l.text
				continue
			}
			if cur != nil {
				cur.Theory = l.text
				continue
			}
			sf.Theory = l.text
		case "global":
			// global sdk.AttributeKeyModule = "module"
			m := regexp.MustCompile(`^([A-Za-z_][A-Za-z0-9_]*)\.([A-Za-z_][A-Za-z0-9_]*)\s*=\s*("(?:[^"\\]|\\.)*")$`).FindStringSubmatch(strings.TrimSpace(l.text))
			if m == nil {
				return nil, fmt.Errorf("%s: bad global (global pkg.Var = \"value\")", l.where)
			}
			v, err := strconv.Unquote(m[3])
			if err != nil {
				return nil, fmt.Errorf("%s: %v", l.where, err)
			}
			sf.Globals = append(sf.Globals, [2]string{m[1] + "." + m[2], v})
		case "bind":
			parts := strings.Fields(l.text)
			if len(parts) != 3 || parts[1] != "=>" {
				return nil, fmt.Errorf("%s: bad bind", l.where)
			}
			sf.Binds = append(sf.Binds, [2]string{parts[0], parts[2]})
		case "import":
			parts := strings.Fields(l.text)
			if len(parts) != 2 {
				return nil, fmt.Errorf("%s: bad import", l.where)
			}
			sf.Imports[parts[0]] = strings.Trim(parts[1], `"`)
		case "opaque":
			// opaque "path".Type as Sort
			parts := strings.Fields(l.text)
			if len(parts) != 3 || parts[1] != "as" {
				return nil, fmt.Errorf("%s: bad opaque", l.where)
			}
			sf.Opaques = append(sf.Opaques, OpaqueDecl{strings.ReplaceAll(parts[0], `"`, ""), parts[2]})
		case "func":
			if !funcHeadRe.MatchString(l.text) {
				return nil, fmt.Errorf("%s: bad func head %q", l.where, l.text)
			}
			cur = &FuncContract{Name: l.text, Loops: map[int]*LoopContract{}, Calls: map[int]*LoopContract{}, Where: l.where}
			sf.Funcs = append(sf.Funcs, cur)
		case "extern":
			m := externHeadRe.FindStringSubmatch(l.text)
			if m == nil {
				return nil, fmt.Errorf("%s: bad extern head %q", l.where, l.text)
			}
			cur = &FuncContract{Name: m[3], PkgPath: m[1] + m[2], Extern: true, Loops: map[int]*LoopContract{}, Calls: map[int]*LoopContract{}, Where: l.where}
			for _, p := range strings.Split(m[5], ",") {
				if p = strings.TrimSpace(p); p != "" {
					cur.Params = append(cur.Params, p)
				}
			}
			sf.Funcs = append(sf.Funcs, cur)
		case "spec":
			opaque, abstract := false, false
			if strings.HasPrefix(l.text, "opaque ") {
				opaque = true
				l.text = strings.TrimSpace(l.text[7:])
			}
			if strings.HasPrefix(l.text, "abstract ") {
				opaque, abstract = true, true
				l.text = strings.TrimSpace(l.text[9:])
			}
			native := ""
			if i := strings.Index(l.text, " native "); i >= 0 {
				native = strings.TrimSpace(l.text[i+8:])
				l.text = strings.TrimSpace(l.text[:i])
			}
			m := specHeadRe.FindStringSubmatch(l.text)
			if m == nil {
				return nil, fmt.Errorf("%s: bad spec head %q", l.where, l.text)
			}
			ps, err := parseParams(m[2])
			if err != nil {
				return nil, fmt.Errorf("%s: %v", l.where, err)
			}
			s := &SpecFun{Name: m[1], Params: ps, Ret: strings.TrimSpace(m[3]), Where: l.where, Src: l.text, Opaque: opaque, Native: native, Abstract: abstract}
			if m[5] != "" {
				if s.Body, err = parseExpr(m[5]); err != nil {
					return nil, fmt.Errorf("%s: %v", l.where, err)
				}
			}
			sf.Specs = append(sf.Specs, s)
		case "axiom":
			i := strings.Index(l.text, ":")
			if i < 0 {
				return nil, fmt.Errorf("%s: bad axiom", l.where)
			}
			e, err := parseExpr(l.text[i+1:])
			if err != nil {
				return nil, fmt.Errorf("%s: %v", l.where, err)
			}
			curAxiom = &Axiom{Name: strings.TrimSpace(l.text[:i]), E: e, Src: l.text[i+1:], Where: l.where}
			sf.Axioms = append(sf.Axioms, curAxiom)
		case "lemma":
			i, j := strings.Index(l.text, "("), strings.LastIndex(l.text, ")")
			if i < 0 || j < i {
				return nil, fmt.Errorf("%s: bad lemma head", l.where)
			}
			ps, err := parseParams(l.text[i+1 : j])
			if err != nil {
				return nil, fmt.Errorf("%s: %v", l.where, err)
			}
			curLemma = &Lemma{Name: strings.TrimSpace(l.text[:i]), Params: ps, Where: l.where}
			sf.Lemmas = append(sf.Lemmas, curLemma)
		case "property":
			i := strings.Index(l.text, ":=")
			if i < 0 {
				return nil, fmt.Errorf("%s: bad property", l.where)
			}
			pm := &PropertyMap{ID: strings.TrimSpace(l.text[:i]), Where: l.where}
			for _, p := range strings.Split(l.text[i+2:], ",") {
				if p = strings.TrimSpace(p); p != "" {
					pm.Patterns = append(pm.Patterns, p)
				}
			}
			sf.Props = append(sf.Props, pm)
		case "ghost":
			// ghost name: sort [:= expr]
			i := strings.Index(l.text, ":")
			if i < 0 {
				return nil, fmt.Errorf("%s: bad ghost", l.where)
			}
			g := GhostDecl{Name: strings.TrimSpace(l.text[:i])}
			if strings.HasPrefix(g.Name, "scratch ") {
				g.Scratch = true
				g.Name = strings.TrimSpace(g.Name[8:])
			}
			rest := l.text[i+1:]
			if j := strings.Index(rest, ":="); j >= 0 {
				e, err := parseExpr(rest[j+2:])
				if err != nil {
					return nil, fmt.Errorf("%s: %v", l.where, err)
				}
				g.Init = e
				rest = rest[:j]
			}
			g.Sort = strings.TrimSpace(rest)
			if cur != nil {
				cur.Ghosts = append(cur.Ghosts, g)
			} else {
				sf.Ghosts = append(sf.Ghosts, g)
			}
		case "trigger":
			if curLemma == nil && curAxiom != nil {
				q, ok := curAxiom.E.(*EQuant)
				if !ok {
					return nil, fmt.Errorf("%s: trigger on a non-quantified axiom", l.where)
				}
				cs, err := parseLocsets(l)
				if err != nil {
					return nil, err
				}
				for _, c := range cs {
					q.Triggers = append(q.Triggers, c.E)
				}
				continue
			}
			if curLemma == nil {
				return nil, fmt.Errorf("%s: trigger outside lemma", l.where)
			}
			cs, err := parseLocsets(l)
			if err != nil {
				return nil, err
			}
			curLemma.Triggers = append(curLemma.Triggers, cs...)
			curLemma.TrigGroups = append(curLemma.TrigGroups, cs)
		case "induction":
			if curLemma == nil {
				return nil, fmt.Errorf("%s: induction outside lemma", l.where)
			}
			curLemma.Induct = l.text
		case "requires", "ensures", "cut":
			c, err := parseClause(l)
			if err != nil {
				return nil, err
			}
			switch {
			case curLemma != nil && l.kw == "requires":
				curLemma.Requires = append(curLemma.Requires, c)
			case curLemma != nil && l.kw == "ensures":
				curLemma.Ensures = append(curLemma.Ensures, c)
			case cur == nil:
				return nil, fmt.Errorf("%s: clause outside item", l.where)
			case l.kw == "requires":
				cur.Requires = append(cur.Requires, c)
			case l.kw == "ensures":
				cur.Ensures = append(cur.Ensures, c)
			default:
				cur.Cuts = append(cur.Cuts, c)
			}
		case "modifies":
			if cur == nil {
				return nil, fmt.Errorf("%s: clause outside item", l.where)
			}
			cur.HasMod = true
			cs, err := parseLocsets(l)
			if err != nil {
				return nil, err
			}
			cur.Modifies = append(cur.Modifies, cs...)
		case "loop", "call":
			if cur == nil {
				return nil, fmt.Errorf("%s: clause outside item", l.where)
			}
			f := strings.Fields(l.text)
			if len(f) < 2 {
				return nil, fmt.Errorf("%s: bad loop clause", l.where)
			}
			k, err := strconv.Atoi(f[0])
			if err != nil {
				return nil, fmt.Errorf("%s: bad loop ordinal", l.where)
			}
			m := cur.Loops
			if l.kw == "call" {
				m = cur.Calls
			}
			lc := m[k]
			if lc == nil {
				lc = &LoopContract{}
				m[k] = lc
			}
			rest := strings.TrimSpace(strings.TrimPrefix(strings.TrimSpace(l.text[len(f[0]):]), f[1]))
			switch f[1] {
			case "invariant":
				c, err := parseClause(rawLine{text: rest, where: l.where})
				if err != nil {
					return nil, err
				}
				lc.Invariants = append(lc.Invariants, c)
			case "modifies":
				lc.HasMod = true
				cs, err := parseLocsets(rawLine{text: rest, where: l.where})
				if err != nil {
					return nil, err
				}
				lc.Modifies = append(lc.Modifies, cs...)
			default:
				return nil, fmt.Errorf("%s: unknown loop clause %q", l.where, f[1])
			}
		case "uses":
			if cur == nil && curLemma != nil {
				for _, n := range strings.Split(l.text, ",") {
					if n = strings.TrimSpace(n); n != "" {
						curLemma.Uses = append(curLemma.Uses, n)
					}
				}
				continue
			}
			if cur == nil {
				return nil, fmt.Errorf("%s: uses outside func", l.where)
			}
			for _, n := range strings.Split(l.text, ",") {
				if n = strings.TrimSpace(n); n != "" {
					cur.Uses = append(cur.Uses, n)
				}
			}
		case "select":
			// select <k> case <i> ghost <G> := <expr>
			m := regexp.MustCompile(`^(\d+)\s+case\s+(\d+)\s+ghost\s+([A-Za-z_][A-Za-z0-9_]*)\s*:=\s*(.*)$`).FindStringSubmatch(l.text)
			if m == nil {
				// select <k> case <i> assume <expr>: an assumption about the value received in that case (listed)
				if ma := regexp.MustCompile(`^(\d+)\s+case\s+(\d+)\s+assume\s+(.*)$`).FindStringSubmatch(l.text); ma != nil {
					m = []string{ma[0], ma[1], ma[2], "", ma[3]}
				}
			}
			if cur == nil || m == nil {
				return nil, fmt.Errorf("%s: bad select clause", l.where)
			}
			e, err := parseExpr(m[4])
			if err != nil {
				return nil, fmt.Errorf("%s: %v", l.where, err)
			}
			k, _ := strconv.Atoi(m[1])
			ci, _ := strconv.Atoi(m[2])
			cur.SelectGhost = append(cur.SelectGhost, SelectGhost{Select: k, Case: ci, Ghost: m[3], E: e, Src: l.text, Where: l.where})
		case "iterates":
			m := regexp.MustCompile(`^([A-Za-z_][A-Za-z0-9_]*)\s+over\s+(.*),\s*(.*)\s+as\s+([A-Za-z_][A-Za-z0-9_.]*)$`).FindStringSubmatch(strings.TrimSpace(l.text))
			if cur == nil || m == nil {
				return nil, fmt.Errorf("%s: bad iterates clause (iterates fn over <store>, <prefix> as <T>)", l.where)
			}
			st, err := parseExpr(m[2])
			if err != nil {
				return nil, fmt.Errorf("%s: %v", l.where, err)
			}
			pf, err := parseExpr(m[3])
			if err != nil {
				return nil, fmt.Errorf("%s: %v", l.where, err)
			}
			cur.Iterates = &IterSpec{Fn: m[1], Store: st, Prefix: pf, StoreSrc: m[2], PrefixSrc: m[3], Type: m[4], Where: l.where}
			lg := "CbArg_" + strings.NewReplacer(".", "_").Replace(m[4])
			tmpl := []string{
				"[iter_count] 0 <= CbN - old(CbN) && CbN - old(CbN) <= enumLen(old(KVhas)[@S@], @P@)",
				"[iter_args] forall j: int :: 0 <= j && j < CbN - old(CbN) ==> " + lg + "[old(CbN)+j] == decode(" + m[4] + ", old(KVval)[@S@][enumKey(old(KVhas)[@S@], @P@, j)])",
				"[iter_nostop] forall j: int :: 0 <= j && j < CbN - old(CbN) - 1 ==> !CbRes[old(CbN)+j]",
				"[iter_end] CbN - old(CbN) == enumLen(old(KVhas)[@S@], @P@) || (CbN - old(CbN) > 0 && CbRes[CbN-1])",
			}
			for _, t := range tmpl {
				t = strings.ReplaceAll(strings.ReplaceAll(t, "@S@", m[2]), "@P@", "("+m[3]+")")
				c, err := parseClause(rawLine{text: t, where: l.where})
				if err != nil {
					return nil, fmt.Errorf("%s: generated iterates clause: %v", l.where, err)
				}
				cur.IterEnsures = append(cur.IterEnsures, c)
			}
			sf.Ghosts = append(sf.Ghosts, GhostDecl{Name: lg, Sort: "map[int]" + m[4], File: sf})
		case "oncall", "onrecv", "onsend":
			// oncall <callee> <k> ghost G := e | oncall <callee> <k> assert e | onrecv <k> ghost G := e
			txt := l.text
			callee := "<-"
			if l.kw == "onsend" {
				// onsend <k|*> ghost G := e | onsend <k|*> assert e   (sendch, sendval are bound; * = every send)
				callee = "->"
				if strings.HasPrefix(strings.TrimSpace(txt), "*") {
					txt = "0" + strings.TrimSpace(txt)[1:]
				}
			}
			if l.kw == "oncall" {
				f := strings.Fields(txt)
				if len(f) < 3 {
					return nil, fmt.Errorf("%s: bad oncall clause", l.where)
				}
				callee = f[0]
				txt = strings.TrimSpace(txt[len(f[0]):])
			}
			m := regexp.MustCompile(`^(\d+)\s+(ghost\s+([A-Za-z_][A-Za-z0-9_]*)\s*:=|assert)\s*(.*)$`).FindStringSubmatch(txt)
			if cur == nil || m == nil {
				return nil, fmt.Errorf("%s: bad %s clause", l.where, l.kw)
			}
			e, err := parseExpr(m[4])
			if err != nil {
				return nil, fmt.Errorf("%s: %v", l.where, err)
			}
			k, _ := strconv.Atoi(m[1])
			cur.CallHooks = append(cur.CallHooks, CallHook{Callee: callee, K: k, Ghost: m[3], E: e, Src: l.text, Where: l.where})
		case "untyped":
			if curLemma == nil {
				return nil, fmt.Errorf("%s: untyped outside lemma", l.where)
			}
			curLemma.Untyped = true
		case "auto":
			if curLemma == nil {
				return nil, fmt.Errorf("%s: auto outside lemma", l.where)
			}
			curLemma.Auto = true
		case "nopanic":
			cur.NoPanic = true
			cur.NoPanicExplicitOnly = strings.TrimSpace(l.text) == "explicit"
		case "trusted":
			cur.Trusted = true
		case "pure":
			cur.Pure = true
		case "fresh":
			cur.Fresh = true
		}
	}
	return sf, nil
}

// parseLocsets splits a modifies list at top-level commas.
func parseLocsets(l rawLine) ([]Clause, error) {
	var out []Clause
	depth, start := 0, 0
	txt := l.text
	flush := func(end int) error {
		s := strings.TrimSpace(txt[start:end])
		if s == "" || s == "nothing" {
			return nil
		}
		if strings.HasPrefix(s, "ghost ") {
			out = append(out, Clause{E: &ECall{"ghost", []Expr{&EIdent{strings.TrimSpace(s[6:])}}}, Src: s, Where: l.where})
			return nil
		}
		c, err := parseClause(rawLine{text: s, where: l.where})
		if err != nil {
			return err
		}
		out = append(out, c)
		return nil
	}
	for i, r := range txt {
		switch r {
		case '(', '[':
			depth++
		case ')', ']':
			depth--
		case ',':
			if depth == 0 {
				if err := flush(i); err != nil {
					return nil, err
				}
				start = i + 1
			}
		}
	}
	if err := flush(len(txt)); err != nil {
		return nil, err
	}
	return out, nil
}

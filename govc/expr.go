package main

// Evaluation of contract expressions to SMT terms in a symbolic state.

import (
	"fmt"
	"go/constant"
	"go/types"
	"strconv"
	"strings"
)

type Ty struct {
	sort string
	gt   types.Type // Go type when the value is Go-typed
	key  *Ty        // for spec arrays
	elem *Ty
}

type TVal struct {
	term string
	ty   Ty
	// lazy: the value stored at reference addr in the heap of env src (not yet gathered)
	addr string
	src  *Env
}

type Env struct {
	c    *Ctx
	g    *FnGen
	cur  *State
	old  *State
	vars map[string]TVal
	res  []TVal
	post bool // parameter names denote entry values (requires/ensures); otherwise the current local cells
	hst  *State // state whose heap/ghosts are read (cur, or the entry state inside old())
	oldMode bool
	pkg  *types.Package
	// spec-function compilation: heap reads go to formal heap parameters
	heapParams map[string]bool
	specMode   bool
	nextOld    string
	file       *SpecFile
	calleeMode bool
	capt       map[string]capturedVar // captured variables of a closure contract (caller side)
	twoHeaps   bool                   // lemma context: old(e) reads a second, independent heap
	loop       *loopInfo              // loop whose invariant is being evaluated (`iter` = its iteration count)
}

func (g *FnGen) newEnv(cur, old *State) *Env {
	return &Env{c: g.c, g: g, cur: cur, hst: cur, old: old, vars: map[string]TVal{}, pkg: g.fn.Pkg.Pkg, file: g.c.ctrFile[g.fc]}
}

func (e *Env) with(name string, v TVal) *Env {
	n := *e
	n.vars = make(map[string]TVal, len(e.vars)+1)
	for k, x := range e.vars {
		n.vars[k] = x
	}
	n.vars[name] = v
	return &n
}

func (e *Env) heap(sort string) string {
	if e.specMode {
		e.c.reg.heapSorts[sort] = true
		if e.oldMode {
			e.heapParams["old:"+sort] = true
			return "hpo_" + heapName(sort)
		}
		e.heapParams[sort] = true
		return "hp_" + heapName(sort)
	}
	return e.g.heap(e.hst, sort)
}

func (e *Env) inOld() *Env {
	if e.specMode {
		if !e.twoHeaps {
			return e
		}
		n := *e
		n.oldMode = true
		return &n
	}
	n := *e
	n.hst = e.old
	n.oldMode = true
	return &n
}

func (e *Env) boolExpr(x Expr) string {
	v := e.eval(x)
	if v.ty.sort != "Bool" {
		panic(genErr("expected bool expression, got %s in %s", v.ty.sort, exprString(x)))
	}
	return v.term
}

// conjuncts splits a clause at top-level && so each conjunct is its own obligation.
func (e *Env) conjuncts(x Expr) []string {
	if b, ok := x.(*EBin); ok && b.Op == "&&" {
		return append(e.conjuncts(b.L), e.conjuncts(b.R)...)
	}
	return []string{e.boolExpr(x)}
}

func intTy() Ty  { return Ty{sort: "Int"} }
func boolTy() Ty { return Ty{sort: "Bool"} }

func (e *Env) goTy(t types.Type) Ty { return Ty{sort: e.c.reg.sortOf(t), gt: t} }

func (e *Env) eval(x Expr) TVal { return e.force(e.evalLazy(x)) }

func (e *Env) force(v TVal) TVal {
	if v.addr == "" {
		return v
	}
	if v.src == nil {
		v.src = e
	}
	if v.src.specMode {
		return TVal{term: v.src.specLoad(v.addr, v.ty.gt), ty: v.ty}
	}
	return TVal{term: v.src.g.load(v.src.hst, v.addr, v.ty.gt), ty: v.ty}
}

func (e *Env) evalLazy(x Expr) TVal {
	switch n := x.(type) {
	case *EInt:
		return TVal{term: n.Val, ty: intTy()}
	case *EBool:
		if n.Val {
			return TVal{term: "true", ty: boolTy()}
		}
		return TVal{term: "false", ty: boolTy()}
	case *EStr:
		return TVal{term: e.c.reg.strLit(n.Val), ty: Ty{sort: "Str"}}
	case *ENil:
		return TVal{term: "nil", ty: Ty{sort: "Nil"}}
	case *EIdent:
		return e.ident(n.Name)
	case *EUn:
		switch n.Op {
		case "!":
			return TVal{term: not(e.boolExpr(n.X)), ty: boolTy()}
		case "-":
			v := e.eval(n.X)
			return TVal{term: app("-", v.term), ty: intTy()}
		case "*":
			v := e.eval(n.X)
			p, ok := v.ty.gt.Underlying().(*types.Pointer)
			if v.ty.gt == nil || !ok {
				panic(genErr("deref of non-pointer in %s", exprString(x)))
			}
			return e.loadAt(v.term, p.Elem())
		}
	case *EBin:
		return e.binary(n)
	case *EField:
		return e.field(n)
	case *EIndex:
		return e.index(n)
	case *ECall:
		return e.call(n)
	case *EQuant:
		ne := e
		var binders, guards []string
		for _, v := range n.Vars {
			ty := e.c.specSort(v.Sort, e.pkg)
			bn := "q_" + v.Name
			ne = ne.with(v.Name, TVal{term: bn, ty: ty})
			binders = append(binders, "("+bn+" "+ty.sort+")")
			if ty.gt != nil {
				// integer ranges only: allocation bounds depend on the state and must not guard a bound variable
				if inv := e.c.valueTypeInv(bn, ty.gt, 0); inv != "true" {
					guards = append(guards, inv)
				}
			}
		}
		body := ne.boolExpr(n.Body)
		q := "forall"
		if !n.Forall {
			q = "exists"
			body = and(append(guards, body)...)
		} else {
			body = implies(and(guards...), body)
		}
		var bns []string
		for _, v := range n.Vars {
			bns = append(bns, "q_"+v.Name)
		}
		if len(n.Triggers) > 0 {
			var ts []string
			for _, t := range n.Triggers {
				ts = append(ts, ne.eval(t).term)
			}
			return TVal{term: "(" + q + " (" + strings.Join(binders, " ") + ") (! " + body + " :pattern (" + strings.Join(ts, " ") + ")))", ty: boolTy()}
		}
		return TVal{term: "(" + q + " (" + strings.Join(binders, " ") + ") " + withPatterns(body, bns) + ")", ty: boolTy()}
	case *ELet:
		v := e.eval(n.Val)
		b := e.with(n.Name, TVal{term: "l_" + n.Name, ty: v.ty}).eval(n.Body)
		return TVal{term: "(let ((l_" + n.Name + " " + v.term + ")) " + b.term + ")", ty: b.ty}
	case *EUpdate:
		v := e.eval(n.X)
		k := e.eval(n.K)
		nv := e.eval(n.V)
		if v.ty.elem == nil {
			panic(genErr("update of non-map spec value %s", exprString(n.X)))
		}
		return TVal{term: store(v.term, k.term, nv.term), ty: v.ty}
	case *ESlice:
		v := e.eval(n.X)
		if v.ty.sort == "Str" {
			lo, hi := "0", app("slen", v.term)
			if n.Lo != nil {
				lo = e.eval(n.Lo).term
			}
			if n.Hi != nil {
				hi = e.eval(n.Hi).term
			}
			e.c.needSidx = true
			return TVal{term: app("ssub", v.term, lo, hi), ty: v.ty}
		}
	}
	panic(genErr("cannot evaluate %s", exprString(x)))
}

func (e *Env) loadAt(ref string, t types.Type) TVal {
	if e.c.reg.structOf(t) != nil {
		return TVal{ty: e.goTy(t), addr: ref, src: e}
	}
	if e.specMode {
		return TVal{term: e.specLoad(ref, t), ty: e.goTy(t)}
	}
	return TVal{term: e.g.load(e.hst, ref, t), ty: e.goTy(t)}
}

func (e *Env) specLoad(r string, t types.Type) string {
	reg := e.c.reg
	if si := reg.structOf(t); si != nil {
		vals := make([]string, len(si.fields))
		for i, f := range si.fields {
			vals[i] = e.specLoad(refFld(r, i), f.typ)
		}
		return reg.mk(si, vals)
	}
	return sel(e.heap(reg.sortOf(t)), r)
}

func (e *Env) ident(name string) TVal {
	if v, ok := e.vars[name]; ok {
		return v
	}
	if cv, ok := e.capt[name]; ok {
		return e.loadAt(cv.addr, cv.typ)
	}
	if name == "visited" && e.g != nil && e.cur.lastRange != nil {
		rg := e.cur.lastRange
		mt := rg.X.Type().Underlying().(*types.Map)
		kt := e.goTy(mt.Key())
		bt := boolTy()
		_, ds := e.g.mapSorts(mt)
		return TVal{term: e.cur.iters[rg], ty: Ty{sort: ds, key: &kt, elem: &bt}}
	}
	if strings.HasPrefix(name, "result") && e.res != nil {
		if name == "result" {
			if len(e.res) >= 1 {
				return e.res[0]
			}
		} else {
			var k int
			if _, err := fmt.Sscanf(name, "result%d", &k); err == nil && k < len(e.res) {
				return e.res[k]
			}
		}
	}
	if e.g != nil {
		g := e.g
		_, isParam := g.params[name]
		if !(isParam && (e.post || e.oldMode)) {
			if _, isLocal := e.cur.names[name]; name == "iter" && !isLocal {
				if e.loop != nil && e.loop.rangeIdx != nil {
					if t, ok := e.cur.locals[e.loop.rangeIdx]; ok {
						return TVal{term: app("+", t, "1"), ty: intTy()}
					}
				}
				if a, ok := e.cur.names["rangeindex"]; ok {
					return TVal{term: app("+", e.cur.locals[a], "1"), ty: intTy()}
				}
			}
			if _, isLocal := e.cur.names[name]; name == "ranged" && !isLocal && e.loop != nil && e.loop.ranged != nil {
				// the collection the range loop walks
				rv := e.loop.ranged
				return TVal{term: g.term(e.cur, rv), ty: e.goTy(rv.Type())}
			}
			if strings.HasPrefix(name, "iter") && len(name) > 4 {
				// iterK: iteration count of loop K (for invariants of nested loops)
				if k, err := strconv.Atoi(name[4:]); err == nil {
					for _, li := range g.loops {
						if li.ordinal == k && li.rangeIdx != nil {
							if t, ok := e.cur.locals[li.rangeIdx]; ok {
								return TVal{term: app("+", t, "1"), ty: intTy()}
							}
						}
					}
				}
			}
			if a, ok := e.cur.names[name]; ok {
				et := a.Type().(*types.Pointer).Elem()
				if !a.Heap {
					if t, ok := e.cur.locals[a]; ok {
						return TVal{term: t, ty: e.goTy(et)}
					}
				} else if v, ok := g.vals[a]; ok {
					return TVal{term: g.load(e.cur, v.term, et), ty: e.goTy(et)}
				}
			}
		}
		if p, ok := g.params[name]; ok {
			if fv := g.freeVar(name); fv != nil {
				// captured variable: its content
				return e.loadAt(p.term, fv.(*types.Pointer).Elem())
			}
			return p
		}
		// named results in post mode are bound through e.res by the caller
	}
	if _, ok := e.c.ghosts[name]; ok && e.g != nil {
		gd := e.c.ghosts[name]
		if gd.File != nil {
			saved := e.c.curFile
			e.c.curFile = gd.File
			ty := e.c.specSort(gd.Sort, e.c.typesPkgs[gd.File.PkgPath])
			e.c.curFile = saved
			return TVal{term: e.g.ghost(e.hst, name), ty: ty}
		}
		return TVal{term: e.g.ghost(e.hst, name), ty: e.c.specSort(gd.Sort, e.pkg)}
	}
	if sf, ok := e.c.specs[name]; ok && len(sf.Params) == 0 {
		return e.callSpec(sf, nil)
	}
	// package-level constant or variable
	if e.pkg != nil {
		if obj := e.pkg.Scope().Lookup(name); obj != nil {
			return e.object(obj)
		}
	}
	panic(genErr("unknown identifier %q", name))
}

func (g *FnGen) freeVar(name string) types.Type {
	for _, fv := range g.fn.FreeVars {
		if fv.Name() == name {
			return fv.Type()
		}
	}
	return nil
}

func (e *Env) object(obj types.Object) TVal {
	switch o := obj.(type) {
	case *types.Const:
		ty := e.goTy(o.Type())
		switch o.Val().Kind() {
		case constant.Int:
			return TVal{term: bigLit(o.Val().ExactString()), ty: ty}
		case constant.String:
			return TVal{term: e.c.reg.strLit(constant.StringVal(o.Val())), ty: ty}
		case constant.Bool:
			if constant.BoolVal(o.Val()) {
				return TVal{term: "true", ty: ty}
			}
			return TVal{term: "false", ty: ty}
		}
	case *types.Var:
		ref := e.c.globalRefByObj(o)
		if t, ok := e.c.globalConstByObj(e.g, o); ok {
			return TVal{term: t, ty: e.goTy(o.Type())}
		}
		return e.loadAt(ref, o.Type())
	}
	panic(genErr("unsupported object %s in contract", obj))
}

func (e *Env) importedPkg(name string) *types.Package {
	f := e.file
	if f == nil {
		f = e.c.curFile
	}
	return e.c.resolvePkg(name, e.pkg, f)
}

func (e *Env) field(n *EField) TVal {
	if id, ok := n.X.(*EIdent); ok {
		if _, bound := e.vars[id.Name]; !bound && !e.isValueName(id.Name) {
			if p := e.importedPkg(id.Name); p != nil {
				if obj := p.Scope().Lookup(n.Name); obj != nil {
					return e.object(obj)
				}
				panic(genErr("no %s.%s", id.Name, n.Name))
			}
		}
	}
	v := e.evalLazy(n.X)
	if v.ty.gt == nil {
		panic(genErr("field %s of non-Go value in %s", n.Name, exprString(n)))
	}
	return e.fieldOf(v, n.Name)
}

func (e *Env) isValueName(name string) bool {
	if e.g == nil {
		return false
	}
	if _, ok := e.g.params[name]; ok {
		return true
	}
	if _, ok := e.cur.names[name]; ok {
		return true
	}
	return false
}

func (e *Env) fieldOf(v TVal, name string) TVal {
	t := v.ty.gt
	obj, index, _ := types.LookupFieldOrMethod(t, true, nil, name)
	if obj == nil && e.pkg != nil {
		obj, index, _ = types.LookupFieldOrMethod(t, true, e.pkg, name)
	}
	if obj == nil {
		// unexported field of a type from another package: search structurally
		obj, index = lookupFieldAnyPkg(t, name)
	}
	fld, ok := obj.(*types.Var)
	if !ok || fld == nil {
		panic(genErr("type %s has no field %s", t, name))
	}
	cur := v
	for _, i := range index {
		ct := cur.ty.gt
		if cur.addr != "" {
			si := e.c.reg.structOf(ct)
			cur = cur.src.loadAt(refFld(cur.addr, i), si.fields[i].typ)
			continue
		}
		if p, ok := ct.Underlying().(*types.Pointer); ok {
			// deref then field: address arithmetic on the heap
			st := p.Elem()
			si := e.c.reg.structOf(st)
			if si == nil {
				panic(genErr("field of opaque type %s", st))
			}
			cur = e.loadAt(refFld(cur.term, i), si.fields[i].typ)
			continue
		}
		si := e.c.reg.structOf(ct)
		if si == nil {
			panic(genErr("field %s of opaque/non-struct type %s", name, ct))
		}
		cur = TVal{term: app(si.fields[i].acc, cur.term), ty: e.goTy(si.fields[i].typ)}
	}
	return cur
}

func lookupFieldAnyPkg(t types.Type, name string) (types.Object, []int) {
	if p, ok := t.Underlying().(*types.Pointer); ok {
		t = p.Elem()
	}
	st, ok := t.Underlying().(*types.Struct)
	if !ok {
		return nil, nil
	}
	for i := 0; i < st.NumFields(); i++ {
		if st.Field(i).Name() == name {
			return st.Field(i), []int{i}
		}
	}
	return nil, nil
}

func (e *Env) index(n *EIndex) TVal {
	v := e.eval(n.X)
	i := e.eval(n.I)
	if v.ty.gt != nil && !isByteSlice(v.ty.gt) {
		switch u := v.ty.gt.Underlying().(type) {
		case *types.Slice:
			return e.loadAt(app("elemref", v.term, i.term), u.Elem())
		case *types.Array:
			return TVal{term: sel(v.term, i.term), ty: e.goTy(u.Elem())}
		case *types.Map:
			return e.mapLookup(v, i, u)
		case *types.Pointer:
			if a, ok := u.Elem().Underlying().(*types.Array); ok {
				return e.loadAt(refSub(v.term, i.term), a.Elem())
			}
		}
	}
	if v.ty.sort == "Str" {
		e.c.needSidx = true
		return TVal{term: app("sidx", v.term, i.term), ty: intTy()}
	}
	if v.ty.elem != nil {
		return TVal{term: sel(v.term, i.term), ty: *v.ty.elem}
	}
	panic(genErr("cannot index %s", exprString(n)))
}

func (e *Env) coerceNil(a, b TVal) (TVal, TVal) {
	fix := func(n TVal, o TVal) TVal {
		if n.ty.sort != "Nil" {
			return n
		}
		switch o.ty.sort {
		case "Ref":
			return TVal{term: nilRef, ty: o.ty}
		case "Iface":
			return TVal{term: "niliface", ty: o.ty}
		case "Fn":
			return TVal{term: "nilfn", ty: o.ty}
		case "Slice":
			return TVal{term: "nilslice-cmp", ty: o.ty}
		}
		panic(genErr("nil compared with %s", o.ty.sort))
	}
	return fix(a, b), fix(b, a)
}

func (e *Env) binary(n *EBin) TVal {
	switch n.Op {
	case "&&":
		return TVal{term: and(e.boolExpr(n.L), e.boolExpr(n.R)), ty: boolTy()}
	case "||":
		return TVal{term: or(e.boolExpr(n.L), e.boolExpr(n.R)), ty: boolTy()}
	case "==>":
		return TVal{term: implies(e.boolExpr(n.L), e.boolExpr(n.R)), ty: boolTy()}
	case "<==>":
		return TVal{term: eq(e.boolExpr(n.L), e.boolExpr(n.R)), ty: boolTy()}
	}
	a, b := e.eval(n.L), e.eval(n.R)
	a, b = e.coerceNil(a, b)
	switch n.Op {
	case "==", "!=":
		var t string
		switch {
		case a.term == "nilslice-cmp":
			t = eq(app("s-arr", b.term), nilRef)
		case b.term == "nilslice-cmp":
			t = eq(app("s-arr", a.term), nilRef)
		default:
			if a.ty.sort != b.ty.sort {
				panic(genErr("comparison of %s with %s in %s", a.ty.sort, b.ty.sort, exprString(n)))
			}
			t = eq(a.term, b.term)
		}
		if n.Op == "!=" {
			t = not(t)
		}
		return TVal{term: t, ty: boolTy()}
	}
	if a.ty.sort == "Str" && n.Op == "+" {
		return TVal{term: app("scat", a.term, b.term), ty: a.ty}
	}
	if a.ty.sort == "Str" && (n.Op == "<" || n.Op == "<=" || n.Op == ">" || n.Op == ">=") {
		e.c.needSlt = true
		switch n.Op {
		case "<":
			return TVal{term: app("slt", a.term, b.term), ty: boolTy()}
		case ">":
			return TVal{term: app("slt", b.term, a.term), ty: boolTy()}
		case "<=":
			return TVal{term: not(app("slt", b.term, a.term)), ty: boolTy()}
		default:
			return TVal{term: not(app("slt", a.term, b.term)), ty: boolTy()}
		}
	}
	if a.ty.sort != "Int" || b.ty.sort != "Int" {
		panic(genErr("arithmetic on %s,%s in %s", a.ty.sort, b.ty.sort, exprString(n)))
	}
	switch n.Op {
	case "+", "-", "*":
		return TVal{term: app(n.Op, a.term, b.term), ty: intTy()}
	case "/":
		return TVal{term: app("tdiv", a.term, b.term), ty: intTy()}
	case "%":
		return TVal{term: app("tmod", a.term, b.term), ty: intTy()}
	case "<", "<=", ">", ">=":
		return TVal{term: app(n.Op, a.term, b.term), ty: boolTy()}
	}
	panic(genErr("unknown operator %s", n.Op))
}

func (e *Env) call(n *ECall) TVal {
	switch n.Fun {
	case "old":
		if len(n.Args) != 1 {
			panic(genErr("old takes one argument"))
		}
		return e.inOld().evalLazy(n.Args[0])
	case "freshloop": // allocated since the loop (whose invariant this is) was entered
		if e.loop == nil || e.loop.pre == nil {
			panic(genErr("freshloop() outside a loop invariant"))
		}
		v := e.eval(n.Args[0])
		r := v.term
		if v.ty.sort == "Slice" {
			r = app("s-arr", r)
		}
		if v.ty.sort == "Iface" {
			r = app("i-val", r)
		}
		return TVal{term: app(">=", app("rid", r), e.loop.pre.next), ty: boolTy()}
	case "atloopheap": // the expression over the heap as it was when the loop was entered, with the locals' current values
		if e.loop == nil || e.loop.pre == nil {
			panic(genErr("atloopheap() outside a loop invariant"))
		}
		nh := *e
		nh.hst = e.loop.pre
		return nh.evalLazy(n.Args[0])
	case "atloop": // value of the expression when the loop whose invariant this is was entered
		if e.loop == nil || e.loop.pre == nil {
			panic(genErr("atloop() outside a loop invariant"))
		}
		ne := *e
		ne.cur, ne.hst = e.loop.pre, e.loop.pre
		return ne.evalLazy(n.Args[0])
	case "len":
		v := e.eval(n.Args[0])
		switch {
		case v.ty.sort == "Slice":
			return TVal{term: app("s-len", v.term), ty: intTy()}
		case v.ty.sort == "Str":
			return TVal{term: app("slen", v.term), ty: intTy()}
		case v.ty.gt != nil:
			if a, ok := v.ty.gt.Underlying().(*types.Array); ok {
				return TVal{term: intLit(a.Len()), ty: intTy()}
			}
			if m, ok := v.ty.gt.Underlying().(*types.Map); ok {
				return e.mapLen(v, m)
			}
		}
		panic(genErr("len of %s", v.ty.sort))
	case "cap":
		v := e.eval(n.Args[0])
		return TVal{term: app("s-cap", v.term), ty: intTy()}
	case "ite":
		c := e.boolExpr(n.Args[0])
		a, b := e.eval(n.Args[1]), e.eval(n.Args[2])
		a, b = e.coerceNil(a, b)
		return TVal{term: ite(c, a.term, b.term), ty: a.ty}
	case "min":
		return TVal{term: app("imin", e.eval(n.Args[0]).term, e.eval(n.Args[1]).term), ty: intTy()}
	case "max":
		return TVal{term: app("imax", e.eval(n.Args[0]).term, e.eval(n.Args[1]).term), ty: intTy()}
	case "ediv":
		return TVal{term: app("div", e.eval(n.Args[0]).term, e.eval(n.Args[1]).term), ty: intTy()}
	case "emod":
		return TVal{term: app("mod", e.eval(n.Args[0]).term, e.eval(n.Args[1]).term), ty: intTy()}
	case "upd": // upd(structValue, Field.Path, newValue): functional update
		v := e.eval(n.Args[0])
		var path []string
		px := n.Args[1]
		for {
			if f, ok := px.(*EField); ok {
				path = append([]string{f.Name}, path...)
				px = f.X
				continue
			}
			id, ok := px.(*EIdent)
			if !ok {
				panic(genErr("upd: bad field path %s", exprString(n.Args[1])))
			}
			path = append([]string{id.Name}, path...)
			break
		}
		nv := e.eval(n.Args[2])
		return TVal{term: e.updField(v, path, nv), ty: v.ty}
	case "has": // has(m, k): k is in the domain of Go map m
		v := e.eval(n.Args[0])
		i := e.eval(n.Args[1])
		mt, ok := v.ty.gt.Underlying().(*types.Map)
		if v.ty.gt == nil || !ok {
			panic(genErr("has() on non-map"))
		}
		return e.mapHas(v, i, mt)
	case "decode": // decode(pkg.Type, bytes)
		t := e.c.goTypeOfExpr(n.Args[0], e.pkg)
		b := e.eval(n.Args[1])
		_, dec := e.c.codecFuns(t)
		return TVal{term: app(dec, b.term), ty: e.goTy(t)}
	case "encode":
		v := e.eval(n.Args[0])
		if v.ty.gt == nil {
			panic(genErr("encode of non-Go value"))
		}
		enc, _ := e.c.codecFuns(v.ty.gt)
		return TVal{term: app(enc, v.term), ty: Ty{sort: "Str"}}
	case "unbox": // unbox(iface, pkg.Type): the value of dynamic type T held by the interface
		v := e.eval(n.Args[0])
		t := e.c.goTypeOfExpr(n.Args[1], e.pkg)
		if e.c.reg.sortOf(t) == "Ref" {
			return TVal{term: app("i-val", v.term), ty: e.goTy(t)}
		}
		return e.loadAt(app("i-val", v.term), t)
	case "chr":
		v := e.eval(n.Args[0])
		if k, err := strconv.Atoi(v.term); err == nil && k >= 0 && k < 256 {
			return TVal{term: e.c.reg.strLit(string([]byte{byte(k)})), ty: Ty{sort: "Str"}}
		}
		e.c.needSidx = true
		return TVal{term: app("chr", v.term), ty: Ty{sort: "Str"}}
	case "fresh":
		v := e.eval(n.Args[0])
		r := v.term
		if v.ty.sort == "Slice" {
			r = app("s-arr", v.term)
		}
		if v.ty.sort == "Iface" {
			r = app("i-val", v.term)
		}
		return TVal{term: app(">=", app("rid", r), e.old.next), ty: boolTy()}
	case "addr": // addr(s, i): reference of slice element i
		v := e.eval(n.Args[0])
		i := e.eval(n.Args[1])
		u := v.ty.gt.Underlying().(*types.Slice)
		return TVal{term: app("elemref", v.term, i.term), ty: e.goTy(types.NewPointer(u.Elem()))}
	case "arr":
		v := e.eval(n.Args[0])
		return TVal{term: app("s-arr", v.term), ty: Ty{sort: "Ref"}}
	case "root": // allocation id of the object a slice / pointer / map refers to
		v := e.eval(n.Args[0])
		r := v.term
		switch v.ty.sort {
		case "Slice":
			r = app("s-arr", r)
		case "Iface":
			r = app("i-val", r)
		}
		return TVal{term: app("rid", r), ty: intTy()}
	case "isnil":
		v := e.eval(n.Args[0])
		a, _ := e.coerceNil(TVal{term: "nil", ty: Ty{sort: "Nil"}}, v)
		if a.term == "nilslice-cmp" {
			return TVal{term: eq(app("s-arr", v.term), nilRef), ty: boolTy()}
		}
		return TVal{term: eq(v.term, a.term), ty: boolTy()}
	case "implements": // implements(iface value, pkg.InterfaceType): non-nil and its dynamic type implements the interface
		v := e.eval(n.Args[0])
		t := e.c.goTypeOfExpr(n.Args[1], e.pkg)
		return TVal{term: and(not(eq(app("i-tid", v.term), "0")), app(e.c.implFun(t), app("i-tid", v.term))), ty: boolTy()}
	case "typeis": // typeis(iface, pkg.Type)
		v := e.eval(n.Args[0])
		t := e.c.goTypeOfExpr(n.Args[1], e.pkg)
		return TVal{term: eq(app("i-tid", v.term), intLit(int64(e.c.typeID(t)))), ty: boolTy()}
	}
	if sf, ok := e.c.specs[n.Fun]; ok {
		var args []TVal
		for _, a := range n.Args {
			args = append(args, e.eval(a))
		}
		return e.callSpec(sf, args)
	}
	panic(genErr("unknown function %s in contract", n.Fun))
}

func (e *Env) updField(v TVal, path []string, nv TVal) string {
	if len(path) == 0 {
		if nv.ty.sort != v.ty.sort {
			panic(genErr("upd: value of sort %s for field of sort %s", nv.ty.sort, v.ty.sort))
		}
		return nv.term
	}
	si := e.c.reg.structOf(v.ty.gt)
	if v.ty.gt == nil || si == nil {
		panic(genErr("upd: not a struct"))
	}
	vals := make([]string, len(si.fields))
	found := false
	for i, f := range si.fields {
		cur := TVal{term: app(f.acc, v.term), ty: e.goTy(f.typ)}
		if f.name == path[0] {
			found = true
			vals[i] = e.updField(cur, path[1:], nv)
		} else {
			vals[i] = cur.term
		}
	}
	if !found {
		panic(genErr("upd: %s has no field %s", v.ty.gt, path[0]))
	}
	return e.c.reg.mk(si, vals)
}

func (e *Env) callSpec(sf *SpecFun, args []TVal) TVal {
	cs := e.c.compiledSpec(sf)
	if len(args) != len(sf.Params) {
		panic(genErr("spec %s: %d args, want %d", sf.Name, len(args), len(sf.Params)))
	}
	var ts []string
	for _, hs := range cs.heaps {
		if strings.HasPrefix(hs, "old:") {
			ts = append(ts, e.inOld().heap(hs[4:]))
		} else {
			ts = append(ts, e.heap(hs))
		}
	}
	for i, a := range args {
		if a.ty.sort == "Nil" {
			a, _ = e.coerceNil(a, TVal{term: "", ty: cs.params[i]})
		}
		if a.ty.sort != cs.params[i].sort {
			panic(genErr("spec %s: argument %d has sort %s, want %s", sf.Name, i, a.ty.sort, cs.params[i].sort))
		}
		ts = append(ts, a.term)
	}
	return TVal{term: app(sf.Name, ts...), ty: cs.ret}
}

func exprString(x Expr) string {
	switch n := x.(type) {
	case *EInt:
		return n.Val
	case *EBool:
		return fmt.Sprint(n.Val)
	case *EStr:
		return fmt.Sprintf("%q", n.Val)
	case *ENil:
		return "nil"
	case *EIdent:
		return n.Name
	case *EUn:
		return n.Op + exprString(n.X)
	case *EBin:
		return "(" + exprString(n.L) + " " + n.Op + " " + exprString(n.R) + ")"
	case *EField:
		return exprString(n.X) + "." + n.Name
	case *EIndex:
		return exprString(n.X) + "[" + exprString(n.I) + "]"
	case *EStar:
		if n.All {
			return exprString(n.X) + "[**]"
		}
		return exprString(n.X) + "[*]"
	case *ECall:
		var as []string
		for _, a := range n.Args {
			as = append(as, exprString(a))
		}
		return n.Fun + "(" + strings.Join(as, ", ") + ")"
	case *EQuant:
		q := "exists"
		if n.Forall {
			q = "forall"
		}
		return q + " ... :: " + exprString(n.Body)
	case *ELet:
		return "let " + n.Name + " := " + exprString(n.Val) + " :: " + exprString(n.Body)
	}
	return fmt.Sprintf("%T", x)
}

// withPatterns annotates a quantifier body with E-matching patterns built from
// the slice-element references  (elemref S q)  and spec-function applications
// whose arguments mention the bound variables.
func withPatterns(body string, bound []string) string {
	cands := map[string][]string{} // bound var -> candidate terms
	isBound := map[string]bool{}
	for _, b := range bound {
		isBound[b] = true
	}
	for i := 0; i < len(body); i++ {
		if !strings.HasPrefix(body[i:], "(elemref ") {
			continue
		}
		depth, j := 0, i
		for ; j < len(body); j++ {
			if body[j] == '(' {
				depth++
			} else if body[j] == ')' {
				depth--
				if depth == 0 {
					break
				}
			}
		}
		t := body[i : j+1]
		// the index must be exactly one bound variable, and no other bound variable may occur
		k := strings.LastIndex(t, " ")
		idx := t[k+1 : len(t)-1]
		if !isBound[idx] {
			continue
		}
		ok := true
		for _, b := range bound {
			if b != idx && containsToken(t, b) {
				ok = false
			}
		}
		if containsToken(t[:k], idx) {
			ok = false
		}
		if ok {
			dup := false
			for _, c := range cands[idx] {
				if c == t {
					dup = true
				}
			}
			if !dup {
				cands[idx] = append(cands[idx], t)
			}
		}
	}
	for _, b := range bound {
		if len(cands[b]) == 0 {
			if t := appPattern(body, b, bound); t != "" {
				cands[b] = []string{t}
			} else {
				return body
			}
		}
	}
	// one multi-pattern per combination of the first variable's candidates with the first candidate of the others
	var pats []string
	for _, c0 := range cands[bound[0]] {
		p := c0
		for _, b := range bound[1:] {
			p += " " + cands[b][0]
		}
		pats = append(pats, ":pattern ("+p+")")
	}
	return "(! " + body + " " + strings.Join(pats, " ") + ")"
}

func containsToken(s, tok string) bool {
	for i := 0; ; {
		j := strings.Index(s[i:], tok)
		if j < 0 {
			return false
		}
		j += i
		end := j + len(tok)
		before := j == 0 || strings.ContainsRune(" ()", rune(s[j-1]))
		after := end == len(s) || strings.ContainsRune(" ()", rune(s[end]))
		if before && after {
			return true
		}
		i = end
	}
}

// spec functions emitted as non-recursive define-fun are macro-expanded by the
// solvers and therefore cannot serve as patterns
var macroSpecs = map[string]bool{}

var nonPatternHeads = map[string]bool{"+": true, "-": true, "*": true, "<": true, "<=": true, ">": true, ">=": true, "=": true,
	"and": true, "or": true, "not": true, "=>": true, "ite": true, "select": true, "store": true, "tdiv": true, "tmod": true,
	"div": true, "mod": true, "imin": true, "imax": true, "forall": true, "exists": true, "let": true, "!": true, "distinct": true}

// appPattern finds an application (f ... b ...) of an uninterpreted / spec
// function with the bound variable b as a direct argument and no other bound variable inside.
func appPattern(body, b string, bound []string) string {
	for i := 0; i < len(body); i++ {
		if body[i] != '(' {
			continue
		}
		j := i + 1
		for j < len(body) && !strings.ContainsRune(" ()", rune(body[j])) {
			j++
		}
		head := body[i+1 : j]
		if head == "" || nonPatternHeads[head] || macroSpecs[head] || strings.HasPrefix(head, "(") || strings.HasPrefix(head, "_") {
			continue
		}
		// extract the balanced term and its direct arguments
		depth, k := 0, i
		for ; k < len(body); k++ {
			if body[k] == '(' {
				depth++
			} else if body[k] == ')' {
				depth--
				if depth == 0 {
					break
				}
			}
		}
		t := body[i : k+1]
		direct := false
		d := 0
		for x := 1; x < len(t)-1; x++ {
			switch t[x] {
			case '(':
				d++
			case ')':
				d--
			case ' ':
				if d == 0 && strings.HasPrefix(t[x+1:], b) {
					end := x + 1 + len(b)
					if end < len(t) && strings.ContainsRune(" )", rune(t[end])) {
						direct = true
					}
				}
			}
		}
		if !direct {
			continue
		}
		ok := true
		for _, ob := range bound {
			if ob != b && containsToken(t, ob) {
				ok = false
			}
		}
		if ok && !strings.Contains(t, "(+ ") && !strings.Contains(t, "(- ") {
			return t
		}
	}
	return ""
}

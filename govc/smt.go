package main

// SMT-LIB term construction helpers and the sort registry.
//
// Terms are plain s-expression strings.  Sorts are SMT sort names.  The memory
// model (DESIGN.md 3.2, revised in section 9): a reference is the flat datatype
// Ref = mk-ref(rid, rpath) where rid is the allocation id of the root object
// and rpath the reversed access path (field indices / element indices) below
// it; one heap array per primitive sort ("sort-split" Burstall-Bornat heap).

import (
	"fmt"
	"go/types"
	"sort"
	"strings"
)

func app(f string, args ...string) string {
	if len(args) == 0 {
		return f
	}
	return "(" + f + " " + strings.Join(args, " ") + ")"
}

func and(xs ...string) string {
	var ys []string
	for _, x := range xs {
		if x == "true" || x == "" {
			continue
		}
		if x == "false" {
			return "false"
		}
		ys = append(ys, x)
	}
	switch len(ys) {
	case 0:
		return "true"
	case 1:
		return ys[0]
	}
	return app("and", ys...)
}

func or(xs ...string) string {
	var ys []string
	for _, x := range xs {
		if x == "false" || x == "" {
			continue
		}
		if x == "true" {
			return "true"
		}
		ys = append(ys, x)
	}
	switch len(ys) {
	case 0:
		return "false"
	case 1:
		return ys[0]
	}
	return app("or", ys...)
}

func not(x string) string {
	switch x {
	case "true":
		return "false"
	case "false":
		return "true"
	}
	if strings.HasPrefix(x, "(not ") {
		return x[5 : len(x)-1]
	}
	return app("not", x)
}

func implies(a, b string) string {
	if a == "true" {
		return b
	}
	if b == "true" || a == "false" {
		return "true"
	}
	return app("=>", a, b)
}

func eq(a, b string) string {
	if a == b {
		return "true"
	}
	return app("=", a, b)
}

func ite(c, a, b string) string {
	if c == "true" {
		return a
	}
	if c == "false" {
		return b
	}
	if a == b {
		return a
	}
	return app("ite", c, a, b)
}

func intLit(n int64) string {
	if n < 0 {
		return fmt.Sprintf("(- %d)", -n)
	}
	return fmt.Sprintf("%d", n)
}

func bigLit(s string) string {
	if strings.HasPrefix(s, "-") {
		return "(- " + s[1:] + ")"
	}
	return s
}

func sel(a, i string) string      { return app("select", a, i) }
func store(a, i, v string) string { return app("store", a, i, v) }

// ---- Ref helpers ----

const nilRef = "nilref"

func refRoot(id string) string    { return app("mk-ref", id, "pnil") }
func refSub(base, i string) string { return app("rsub", base, i) }
func refFld(base string, i int) string { return refSub(base, intLit(int64(i))) }

// ---- sort registry ----

type structInfo struct {
	sort   string
	gt     *types.Struct
	named  types.Type
	fields []fieldInfo
}
type fieldInfo struct {
	name string
	acc  string // accessor function name
	typ  types.Type
	sort string
}

type Registry struct {
	structs    map[string]*structInfo // by sort name
	structByT  map[string]*structInfo // by types.Type string key
	order      []string               // declaration order of struct sorts
	opaque     map[string]string      // qualified Go type name -> SMT sort (uninterpreted or builtin)
	usorts     map[string]bool        // uninterpreted sorts to declare
	heapSorts  map[string]bool        // sorts that have a heap array
	strLits    map[string]string      // Go string literal -> SMT const
	strOrder   []string
	nativeStr  bool // use SMT String theory for Str
	arraySorts map[string]bool
	zeroArrays map[string][2]string
}

func newRegistry() *Registry {
	return &Registry{
		structs: map[string]*structInfo{}, structByT: map[string]*structInfo{},
		opaque: map[string]string{}, usorts: map[string]bool{}, heapSorts: map[string]bool{},
		strLits: map[string]string{}, arraySorts: map[string]bool{}, zeroArrays: map[string][2]string{},
	}
}

func qualName(n *types.Named) string {
	o := n.Obj()
	if o.Pkg() == nil {
		return o.Name()
	}
	return o.Pkg().Path() + "." + o.Name()
}

func sanitize(s string) string {
	var b strings.Builder
	for _, r := range s {
		switch {
		case r >= 'a' && r <= 'z', r >= 'A' && r <= 'Z', r >= '0' && r <= '9', r == '_', r == '.':
			b.WriteRune(r)
		default:
			b.WriteRune('_')
		}
	}
	return b.String()
}

func isByteSlice(t types.Type) bool {
	if s, ok := t.Underlying().(*types.Slice); ok {
		if b, ok := s.Elem().Underlying().(*types.Basic); ok && b.Kind() == types.Uint8 {
			return true
		}
	}
	return false
}

// sortOf maps a Go type to its SMT sort, declaring struct datatypes on demand.
func (r *Registry) sortOf(t types.Type) string {
	t = types.Unalias(t)
	if n, ok := t.(*types.Named); ok {
		if s, ok := r.opaque[qualName(n)]; ok {
			if s != "Int" && s != "Bool" && s != "Str" && s != "Real" {
				r.usorts[s] = true
			}
			return s
		}
	}
	if isByteSlice(t) {
		return "Str"
	}
	switch u := t.Underlying().(type) {
	case *types.Basic:
		switch {
		case u.Info()&types.IsBoolean != 0:
			return "Bool"
		case u.Info()&types.IsInteger != 0:
			return "Int"
		case u.Info()&types.IsString != 0:
			return "Str"
		case u.Info()&types.IsFloat != 0:
			r.usorts["Float"] = true
			return "Float"
		case u.Kind() == types.UnsafePointer:
			return "Ref"
		case u.Kind() == types.UntypedNil:
			return "Ref"
		}
	case *types.Pointer, *types.Map, *types.Chan:
		return "Ref"
	case *types.Slice:
		return "Slice"
	case *types.Interface:
		return "Iface"
	case *types.Signature:
		return "Fn"
	case *types.Array:
		s := "(Array Int " + r.sortOf(u.Elem()) + ")"
		return s
	case *types.Struct:
		return r.structSort(t, u)
	case *types.Tuple:
		return "Tuple"
	}
	panic(genErr("unsupported type %s", t))
}

func (r *Registry) structSort(t types.Type, u *types.Struct) string {
	key := types.TypeString(t, nil)
	if si, ok := r.structByT[key]; ok {
		return si.sort
	}
	var name string
	if n, ok := t.(*types.Named); ok {
		p := ""
		if n.Obj().Pkg() != nil {
			parts := strings.Split(n.Obj().Pkg().Path(), "/")
			if len(parts) > 2 {
				parts = parts[len(parts)-2:]
			}
			p = strings.Join(parts, ".") + "."
		}
		name = sanitize(p + n.Obj().Name())
	} else {
		name = fmt.Sprintf("anon%d", len(r.structs))
	}
	base := name
	for i := 2; r.structs[name] != nil; i++ {
		name = fmt.Sprintf("%s%d", base, i)
	}
	si := &structInfo{sort: name, gt: u, named: t}
	r.structs[name] = si
	r.structByT[key] = si
	for i := 0; i < u.NumFields(); i++ {
		f := u.Field(i)
		fs := r.sortOf(f.Type())
		acc := name + "." + sanitize(f.Name())
		if f.Name() == "_" {
			acc = fmt.Sprintf("%s._%d", name, i)
		}
		si.fields = append(si.fields, fieldInfo{name: f.Name(), acc: acc, typ: f.Type(), sort: fs})
	}
	r.order = append(r.order, name) // after its dependencies
	return name
}

func (r *Registry) structOf(t types.Type) *structInfo {
	if _, ok := t.(*mapCells); ok {
		return nil
	}
	t = types.Unalias(t)
	u, ok := t.Underlying().(*types.Struct)
	if !ok {
		return nil
	}
	if n, ok := t.(*types.Named); ok {
		if _, ok := r.opaque[qualName(n)]; ok {
			return nil
		}
	}
	r.structSort(t, u)
	return r.structByT[types.TypeString(t, nil)]
}

func (r *Registry) mk(si *structInfo, vals []string) string {
	if len(si.fields) == 0 {
		return "mk-" + si.sort
	}
	return app("mk-"+si.sort, vals...)
}

// strLit returns the SMT constant standing for a Go string literal.
func (r *Registry) strLit(s string) string {
	if c, ok := r.strLits[s]; ok {
		return c
	}
	c := fmt.Sprintf("str!%d", len(r.strLits))
	r.strLits[s] = c
	r.strOrder = append(r.strOrder, s)
	return c
}

func smtStringLit(s string) string {
	var b strings.Builder
	b.WriteByte('"')
	for i := 0; i < len(s); i++ {
		c := s[i]
		switch {
		case c == '"':
			b.WriteString(`""`)
		case c >= 0x20 && c < 0x7f && c != '\\':
			b.WriteByte(c)
		default:
			fmt.Fprintf(&b, "\\u{%x}", c)
		}
	}
	b.WriteByte('"')
	return b.String()
}

func heapName(sort string) string {
	return "H_" + sanitize(strings.NewReplacer("(", "", ")", "", " ", "_").Replace(sort))
}

// zero value of a Go type
func (r *Registry) zero(t types.Type) string {
	s := r.sortOf(t)
	return r.zeroOfSort(s, t)
}

func (r *Registry) zeroOfSort(s string, t types.Type) string {
	switch s {
	case "Int":
		return "0"
	case "Bool":
		return "false"
	case "Str":
		return r.strLit("")
	case "Ref":
		return nilRef
	case "Slice":
		return "nilslice"
	case "Iface":
		return "niliface"
	case "Fn":
		return "nilfn"
	case "Float":
		return "fzero"
	}
	if t != nil {
		if si := r.structOf(t); si != nil {
			vals := make([]string, len(si.fields))
			for i, f := range si.fields {
				vals[i] = r.zero(f.typ)
			}
			return r.mk(si, vals)
		}
		if a, ok := t.Underlying().(*types.Array); ok {
			z := "zarr!" + sanitize(heapName(s))
			r.zeroArrays[z] = [2]string{s, r.zero(a.Elem())}
			return z
		}
	}
	r.usorts[s] = true
	return "zero!" + sanitize(s)
}

// prelude emits sort/datatype/heap-independent declarations.
func (r *Registry) prelude(native bool) string {
	var b strings.Builder
	if native {
		b.WriteString("(define-sort Str () String)\n")
		b.WriteString("(define-fun slen ((s Str)) Int (str.len s))\n")
		b.WriteString("(define-fun scat ((a Str) (b Str)) Str (str.++ a b))\n")
	} else {
		b.WriteString("(declare-sort Str 0)\n(declare-fun slen (Str) Int)\n(declare-fun scat (Str Str) Str)\n")
		b.WriteString("(assert (forall ((s Str)) (! (>= (slen s) 0) :pattern ((slen s)))))\n")
	}
	us := make([]string, 0, len(r.usorts))
	for s := range r.usorts {
		us = append(us, s)
	}
	sort.Strings(us)
	for _, s := range us {
		if strings.HasPrefix(s, "(") {
			continue
		}
		fmt.Fprintf(&b, "(declare-sort %s 0)\n", s)
	}
	b.WriteString(`(declare-datatypes ((Path 0)) (((pnil) (pcons (phd Int) (ptl Path)))))
(declare-datatypes ((Ref 0)) (((mk-ref (rid Int) (rpath Path)))))
(define-fun nilref () Ref (mk-ref 0 pnil))
(define-fun rsub ((b Ref) (i Int)) Ref (mk-ref (rid b) (pcons i (rpath b))))
(declare-datatypes ((Slice 0)) (((mk-slice (s-arr Ref) (s-off Int) (s-len Int) (s-cap Int)))))
(define-fun nilslice () Slice (mk-slice nilref 0 0 0))
(declare-fun elemref (Slice Int) Ref)
(assert (forall ((s Slice) (i Int)) (! (= (elemref s i) (rsub (s-arr s) (+ (s-off s) i))) :pattern ((elemref s i)))))
(declare-datatypes ((Iface 0)) (((mk-iface (i-tid Int) (i-val Ref)))))
(define-fun niliface () Iface (mk-iface 0 nilref))
(declare-datatypes ((Fn 0)) (((mk-fn (fn-id Int) (fn-env Ref)))))
(define-fun nilfn () Fn (mk-fn 0 nilref))
(define-fun tdiv ((a Int) (b Int)) Int (ite (>= a 0) (div a b) (- (div (- a) b))))
(define-fun tmod ((a Int) (b Int)) Int (- a (* b (tdiv a b))))
(define-fun imin ((a Int) (b Int)) Int (ite (<= a b) a b))
(define-fun imax ((a Int) (b Int)) Int (ite (>= a b) a b))
`)
	for _, s := range us {
		if strings.HasPrefix(s, "(") {
			continue
		}
		fmt.Fprintf(&b, "(declare-fun zero!%s () %s)\n", sanitize(s), s)
	}
	for _, name := range r.canonicalOrder() {
		si := r.structs[name]
		if len(si.fields) == 0 {
			fmt.Fprintf(&b, "(declare-datatypes ((%s 0)) (((mk-%s))))\n", name, name)
			continue
		}
		fmt.Fprintf(&b, "(declare-datatypes ((%s 0)) (((mk-%s", name, name)
		for _, f := range si.fields {
			fmt.Fprintf(&b, " (%s %s)", f.acc, f.sort)
		}
		b.WriteString("))))\n")
	}
	if native {
		for i, s := range r.strOrder {
			fmt.Fprintf(&b, "(define-fun str!%d () Str %s)\n", i, smtStringLit(s))
		}
	} else {
		for i, s := range r.strOrder {
			fmt.Fprintf(&b, "(declare-fun str!%d () Str) ; %q\n(assert (= (slen str!%d) %d))\n", i, s, i, len(s))
		}
		if e, ok := r.strLits[""]; ok {
			fmt.Fprintf(&b, "(assert (forall ((x Str)) (! (= (scat %s x) x) :pattern ((scat %s x)))))\n(assert (forall ((x Str)) (! (= (scat x %s) x) :pattern ((scat x %s)))))\n", e, e, e, e)
		}
		if len(r.strOrder) > 1 {
			b.WriteString("(assert (distinct")
			for i := range r.strOrder {
				fmt.Fprintf(&b, " str!%d", i)
			}
			b.WriteString("))\n")
		}
	}
	var zs []string
	for z := range r.zeroArrays {
		zs = append(zs, z)
	}
	sort.Strings(zs)
	for _, z := range zs {
		v := r.zeroArrays[z]
		fmt.Fprintf(&b, "(declare-fun %s () %s)\n(assert (forall ((i Int)) (! (= (select %s i) %s) :pattern ((select %s i)))))\n", z, v[0], z, v[1], z)
	}
	return b.String()
}

type GenError struct{ msg string }

func (e *GenError) Error() string { return e.msg }
func genErr(f string, a ...interface{}) *GenError {
	return &GenError{fmt.Sprintf(f, a...)}
}


// canonicalOrder: the struct datatypes in an order that depends only on their names and contents (each after the
// datatypes its fields use), not on the order in which the generator happened to meet them.
func (r *Registry) canonicalOrder() []string {
	names := append([]string{}, r.order...)
	sort.Strings(names)
	known := map[string]bool{}
	for _, n := range names {
		known[n] = true
	}
	var out []string
	done := map[string]bool{}
	var visit func(n string)
	visit = func(n string) {
		if done[n] {
			return
		}
		done[n] = true
		for _, f := range r.structs[n].fields {
			// a field sort is a datatype name or an array sort mentioning datatype names
			for _, tok := range strings.FieldsFunc(f.sort, func(c rune) bool { return c == ' ' || c == '(' || c == ')' }) {
				if known[tok] && tok != n {
					visit(tok)
				}
			}
		}
		out = append(out, n)
	}
	for _, n := range names {
		visit(n)
	}
	return out
}

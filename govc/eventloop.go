package main

// Event loops: select / channels under a demonic environment (DESIGN.md 3.8).

import (
	"go/types"

	"golang.org/x/tools/go/ssa"
)

type chanState struct{}

func (c *chanState) clone() *chanState { return c }

func (g *FnGen) mergeChans(out *State, live []*State, mergeTerm func(string, string, func(*State) (string, bool)) (string, bool)) {
}
func (g *FnGen) havocChans(s *State, li *loopInfo) {}

func (g *FnGen) selectImpl(s *State, x *ssa.Select)     { panic(genErr("select not supported yet")) }
func (g *FnGen) sendImpl(s *State, x *ssa.Send)         { panic(genErr("send not supported yet")) }
func (g *FnGen) makeChanImpl(s *State, x *ssa.MakeChan) { panic(genErr("chan not supported yet")) }
func (g *FnGen) recvImpl(s *State, x *ssa.UnOp)         { panic(genErr("recv not supported yet")) }
func (g *FnGen) closeImpl(s *State, com *ssa.CallCommon) { panic(genErr("close not supported yet")) }

func (g *FnGen) intrinsicSorts(com *ssa.CallCommon, heapSorts map[string]bool) bool {
	if !com.IsInvoke() {
		return false
	}
	if com.Method.Name() == "MustUnmarshalBinaryBare" || com.Method.Name() == "UnmarshalBinaryBare" {
		if pt := ifaceOperandType(com.Args[1]); pt != nil {
			g.cellSorts(pt.Underlying().(interface{ Elem() types.Type }).Elem(), heapSorts)
			return true
		}
	}
	if com.Method.Name() == "MustMarshalBinaryBare" {
		return true
	}
	return false
}

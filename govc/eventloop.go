package main

// Event loops: select / channels under a demonic environment (DESIGN.md 3.8).
//
// A select returns any case whose channel is non-nil; a received value is
// arbitrary (well-typed).  Result channels (ghost ChanKind[c] == 1, created by
// trusted constructors such as dm.do / runner.Do) deliver exactly one value:
// a receive on c can fire only while ChanPending[c], and firing it clears
// ChanPending[c] and decrements the ghost counter InFlight.  Ghost updates can
// be attached to individual select cases (`select k case i ghost G := e`).
// Sends, closes and goroutine bodies are outside the model (dropped, listed).

import (
	"fmt"
	"go/types"

	"golang.org/x/tools/go/ssa"
)

type chanState struct{}

func (c *chanState) clone() *chanState { return c }

func (g *FnGen) mergeChans(out *State, live []*State, mergeTerm func(string, string, func(*State) (string, bool)) (string, bool)) {
}
func (g *FnGen) havocChans(s *State, li *loopInfo) {}

func (g *FnGen) hasChanProtocol() bool {
	_, a := g.c.ghosts["ChanKind"]
	_, b := g.c.ghosts["ChanPending"]
	_, c := g.c.ghosts["InFlight"]
	return a && b && c
}

// recvEffect applies the result-channel protocol for a receive on ch that fires under condition cond.
func (g *FnGen) recvEffect(s *State, ch, cond string) {
	if !g.hasChanProtocol() {
		return
	}
	kind := sel(g.ghost(s, "ChanKind"), ch)
	isRes := eq(kind, "1")
	g.assume(s, implies(and(cond, isRes), sel(g.ghost(s, "ChanPending"), ch)))
	fire := and(cond, isRes)
	np := g.fresh("G_ChanPending", g.c.specSort(g.c.ghosts["ChanPending"].Sort, nil).sort)
	g.defs = append(g.defs, eq(np, ite(fire, store(g.ghost(s, "ChanPending"), ch, "false"), g.ghost(s, "ChanPending"))))
	s.ghosts["ChanPending"] = np
	nf := g.fresh("G_InFlight", "Int")
	g.defs = append(g.defs, eq(nf, ite(fire, app("-", g.ghost(s, "InFlight"), "1"), g.ghost(s, "InFlight"))))
	s.ghosts["InFlight"] = nf
}

func (g *FnGen) selectImpl(s *State, x *ssa.Select) {
	g.selectN++
	n := len(x.States)
	idx := g.fresh("selidx", "Int")
	lo := "0"
	if !x.Blocking {
		lo = "(- 1)"
	}
	g.assume(s, and(app("<=", lo, idx), app("<", idx, intLit(int64(n)))))
	tuple := []string{idx, g.fresh("recvok", "Bool")}
	recvVal := map[int]string{}
	recvTyp := map[int]types.Type{}
	for i, st := range x.States {
		ch := g.term(s, st.Chan)
		here := eq(idx, intLit(int64(i)))
		g.assume(s, implies(here, not(eq(ch, nilRef)))) // nil channels are never ready
		if st.Dir == types.RecvOnly {
			et := st.Chan.Type().Underlying().(*types.Chan).Elem()
			v := g.fresh(fmt.Sprintf("recv%d", i), g.c.reg.sortOf(et))
			g.assume(s, g.typeInv(s, v, et, 0))
			tuple = append(tuple, v)
			recvVal[i], recvTyp[i] = v, et
			g.recvEffect(s, ch, here)
		} else {
			g.term(s, st.Send)
			g.usedDropped["send in select (no effect on modelled state)"] = true
		}
	}
	if g.fc != nil {
		for _, sg := range g.fc.SelectGhost {
			if sg.Select != g.selectN {
				continue
			}
			if sg.Case < 0 || sg.Case >= n {
				panic(genErr("%s: select %d has %d cases", sg.Where, sg.Select, n))
			}
			env := g.newEnv(s, g.entry)
			for _, li := range g.enclosingLoops() {
				if env.loop == nil || len(li.blocks) < len(env.loop.blocks) {
					env.loop = li
				}
			}
			if rv, ok := recvVal[sg.Case]; ok {
				env.vars["recv"] = TVal{term: rv, ty: Ty{sort: g.c.reg.sortOf(recvTyp[sg.Case]), gt: recvTyp[sg.Case]}}
			}
			if sg.Ghost == "" {
				g.assume(s, implies(eq(idx, intLit(int64(sg.Case))), env.eval(sg.E).term))
				g.c.assumptionsUsed["assumed about the environment ("+shortKey(g.c.fnKey(g.fn))+"): select "+sg.Src] = true
				continue
			}
			gd, ok := g.c.ghosts[sg.Ghost]
			if !ok {
				panic(genErr("%s: unknown ghost %s", sg.Where, sg.Ghost))
			}
			v := env.eval(sg.E)
			ng := g.fresh("G_"+sg.Ghost, g.ghostSort(gd))
			g.defs = append(g.defs, eq(ng, ite(eq(idx, intLit(int64(sg.Case))), v.term, g.ghost(s, sg.Ghost))))
			s.ghosts[sg.Ghost] = ng
		}
	}
	g.vals[x] = &Val{tuple: tuple}
}

func (g *FnGen) recvImpl(s *State, x *ssa.UnOp) {
	ch := g.term(s, x.X)
	g.assume(s, not(eq(ch, nilRef))) // a receive from a nil channel blocks forever: no continuation
	et := x.X.Type().Underlying().(*types.Chan).Elem()
	v := g.fresh("recv", g.c.reg.sortOf(et))
	g.assume(s, g.typeInv(s, v, et, 0))
	g.recvEffect(s, ch, "true")
	if x.CommaOk {
		g.vals[x] = &Val{tuple: []string{v, g.fresh("recvok", "Bool")}}
	} else {
		g.vals[x] = &Val{term: v}
	}
	g.runHooks(s, x, v, et)
}

func (g *FnGen) sendImpl(s *State, x *ssa.Send) {
	ch := g.term(s, x.Chan)
	v := g.term(s, x.X)
	g.assume(s, not(eq(ch, nilRef)))
	g.usedDropped["channel send (no effect on modelled state other than onsend ghost updates)"] = true
	et := x.Chan.Type().Underlying().(*types.Chan).Elem()
	g.hookExtra = map[string]TVal{
		"sendch":  {term: ch, ty: Ty{sort: "Ref", gt: x.Chan.Type()}},
		"sendval": {term: v, ty: Ty{sort: g.c.reg.sortOf(et), gt: et}},
	}
	g.runHooks(s, x, "", nil)
	g.hookExtra = nil
}

func (g *FnGen) makeChanImpl(s *State, x *ssa.MakeChan) {
	r := g.allocRef(s, "chan")
	if g.hasChanProtocol() {
		nk := g.fresh("G_ChanKind", g.c.specSort(g.c.ghosts["ChanKind"].Sort, nil).sort)
		g.defs = append(g.defs, eq(nk, store(g.ghost(s, "ChanKind"), r, "0")))
		s.ghosts["ChanKind"] = nk
	}
	g.vals[x] = &Val{term: r}
}

func (g *FnGen) closeImpl(s *State, com *ssa.CallCommon) {
	g.term(s, com.Args[0])
	g.usedDropped["close(chan) (no effect on modelled state)"] = true
}

func (g *FnGen) intrinsicSorts(com *ssa.CallCommon, heapSorts map[string]bool) bool {
	if !com.IsInvoke() {
		return false
	}
	if com.Method.Name() == "MustUnmarshalBinaryBare" || com.Method.Name() == "UnmarshalBinaryBare" {
		if pt := ifaceOperandType(com.Args[1]); pt != nil {
			g.cellSorts(pt.Underlying().(interface{ Elem() types.Type }).Elem(), heapSorts)
			return true
		}
	}
	if com.Method.Name() == "MustMarshalBinaryBare" {
		return true
	}
	return false
}

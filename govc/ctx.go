package main

// Ctx: one verification run — loaded packages, SSA, contract table.

import (
	"crypto/sha256"
	"fmt"
	"go/ast"
	"go/constant"
	"go/token"
	"go/types"
	"os"
	"path/filepath"
	"regexp"
	"sort"
	"strconv"
	"strings"

	"golang.org/x/tools/go/packages"
	"golang.org/x/tools/go/ssa"
	"golang.org/x/tools/go/ssa/ssautil"
)

type compiledSpec struct {
	absDef string // defining axiom of an abstract spec
	params []Ty
	ret    Ty
	heaps  []string
	def    string
	done   bool
}

type Ctx struct {
	repo                                   string
	fset                                   *token.FileSet
	reg                                    *Registry
	prog                                   *ssa.Program
	pkgs                                   []*packages.Package
	ssaPkgs                                map[string]*ssa.Package
	typesPkgs                              map[string]*types.Package
	files                                  []*SpecFile
	contracts                              map[string]*FuncContract
	bound                                  map[string]bool
	specs                                  map[string]*SpecFun
	specFile                               map[string]*SpecFile
	compiled                               map[string]*compiledSpec
	specOrder                              []string
	axioms                                 []*Axiom
	lemmas                                 []*Lemma
	ghosts                                 map[string]GhostDecl
	props                                  map[string][]string
	globals                                map[string]int
	typeIDs                                map[string]int
	typeIDUsed                             map[int]bool
	fnIDs                                  map[*ssa.Function]int
	fnByID                                 map[int]*ssa.Function
	dropped                                []*regexp.Regexp
	needSidx, needSlt, needBits, needFloat bool
	floatLits                              map[string]string
	ctrFile                                map[*FuncContract]*SpecFile
	assumptionsUsed                        map[string]bool
	globalVals                             map[string]string // assumed values of dependencies' package-level string variables
	curFile                                *SpecFile
	binds                                  map[string]types.Type // interface key -> concrete type
	implFuns                               map[string]bool
	cardSorts                              map[string]bool
	codecs                                 map[string]bool
	goHandler                              func(g *FnGen, s *State, x *ssa.Go, key string) bool
}

var defaultDropped = []string{
	`^github\.com/tendermint/tendermint/libs/log\.\(Logger\)\.`,
	`^github\.com/cosmos/cosmos-sdk/types\.\(Context\)\.Logger$`,
	`^github\.com/cosmos/cosmos-sdk/telemetry\.`,
	`^github\.com/prometheus/`,
	`^github\.com/ovrclk/akash/util/metrics`,
	`^fmt\.Print`,
	`^fmt\.Sprint`,
	`\)\.String$`, // stringers (for log / error messages): pure, result unconstrained
	`\)\.GoString$`,
}

func newCtx(repo string, patterns []string, specDirs []string) (*Ctx, error) {
	c := &Ctx{repo: repo, reg: newRegistry(), ssaPkgs: map[string]*ssa.Package{}, typesPkgs: map[string]*types.Package{},
		contracts: map[string]*FuncContract{}, bound: map[string]bool{}, specs: map[string]*SpecFun{}, specFile: map[string]*SpecFile{},
		compiled: map[string]*compiledSpec{}, ghosts: map[string]GhostDecl{}, props: map[string][]string{},
		globals: map[string]int{}, typeIDs: map[string]int{}, fnIDs: map[*ssa.Function]int{}, fnByID: map[int]*ssa.Function{},
		binds: map[string]types.Type{}, implFuns: map[string]bool{}, cardSorts: map[string]bool{}, codecs: map[string]bool{}, floatLits: map[string]string{}, ctrFile: map[*FuncContract]*SpecFile{}, assumptionsUsed: map[string]bool{}, globalVals: map[string]string{}}
	for _, d := range defaultDropped {
		c.dropped = append(c.dropped, regexp.MustCompile(d))
	}
	cfg := &packages.Config{Mode: packages.LoadSyntax, Dir: repo, BuildFlags: []string{"-tags=verif"},
		Env: append(os.Environ(), "GOFLAGS=-mod=mod", "GOPROXY=off", "GOSUMDB=off", "GOTOOLCHAIN=local")}
	pkgs, err := packages.Load(cfg, patterns...)
	if err != nil {
		return nil, err
	}
	for _, p := range pkgs {
		if len(p.Errors) > 0 {
			return nil, fmt.Errorf("package %s: %v", p.PkgPath, p.Errors[0])
		}
	}
	c.pkgs = pkgs
	c.fset = pkgs[0].Fset
	prog, spkgs := ssautil.Packages(pkgs, ssa.NaiveForm|ssa.GlobalDebug)
	c.prog = prog
	for i, sp := range spkgs {
		if sp == nil {
			return nil, fmt.Errorf("no SSA for %s", pkgs[i].PkgPath)
		}
		sp.Build()
		c.ssaPkgs[pkgs[i].PkgPath] = sp
	}
	var visit func(p *types.Package)
	visit = func(p *types.Package) {
		if c.typesPkgs[p.Path()] != nil {
			return
		}
		c.typesPkgs[p.Path()] = p
		for _, i := range p.Imports() {
			visit(i)
		}
	}
	for _, p := range pkgs {
		visit(p.Types)
	}
	// spec files: /verif/specs first (opaque decls, externs), then per-package contract files
	var paths []string
	for _, d := range specDirs {
		m, _ := filepath.Glob(filepath.Join(d, "*.spec"))
		sort.Strings(m)
		paths = append(paths, m...)
	}
	for _, p := range paths {
		sf, err := parseSpecFile(p)
		if err != nil {
			return nil, err
		}
		c.files = append(c.files, sf)
	}
	for _, p := range pkgs {
		if len(p.GoFiles) == 0 {
			continue
		}
		dir := filepath.Dir(p.GoFiles[0])
		m, _ := filepath.Glob(filepath.Join(dir, "zz_contracts*_verif.go"))
		sort.Strings(m)
		for _, f := range m {
			sf, err := parseSpecFile(f)
			if err != nil {
				return nil, err
			}
			sf.PkgPath = p.PkgPath
			c.files = append(c.files, sf)
		}
	}
	for _, sf := range c.files {
		if err := c.addFile(sf); err != nil {
			return nil, err
		}
	}
	return c, nil
}

func (c *Ctx) addFile(sf *SpecFile) error {
	for _, o := range sf.Opaques {
		gt := o.GoType
		if p, ok := sf.Imports[pkgOfQual(gt)]; ok {
			gt = p + "." + gt[strings.LastIndex(gt, ".")+1:]
		}
		c.reg.opaque[gt] = o.Sort
	}
	for _, g := range sf.Ghosts {
		c.ghosts[g.Name] = g
	}
	for _, gl := range sf.Globals {
		i := strings.Index(gl[0], ".")
		pp, ok := sf.Imports[gl[0][:i]]
		if !ok {
			return fmt.Errorf("%s: global: unknown package alias %s", sf.Path, gl[0][:i])
		}
		c.globalVals[pp+"."+gl[0][i+1:]] = gl[1]
	}
	for _, b := range sf.Binds {
		saved := c.curFile
		c.curFile = sf
		var pkg *types.Package
		if sf.PkgPath != "" {
			pkg = c.typesPkgs[sf.PkgPath]
		}
		it := c.goTypeOf(b[0], pkg)
		ct := c.goTypeOf(b[1], pkg)
		c.curFile = saved
		if _, ok := it.Underlying().(*types.Interface); !ok {
			return fmt.Errorf("%s: bind: %s is not an interface", sf.Path, b[0])
		}
		if !types.Implements(ct, it.Underlying().(*types.Interface)) {
			return fmt.Errorf("%s: bind: %s does not implement %s", sf.Path, b[1], b[0])
		}
		c.binds[types.TypeString(it, nil)] = ct
		c.assumptionsUsed["A-WIRE: values of interface "+b[0]+" are of dynamic type "+b[1]+" (checked at each call as a precondition)"] = true
	}
	for _, s := range sf.Specs {
		if _, dup := c.specs[s.Name]; dup {
			return fmt.Errorf("%s: duplicate spec %s", s.Where, s.Name)
		}
		c.specs[s.Name] = s
		c.specFile[s.Name] = sf
	}
	c.axioms = append(c.axioms, sf.Axioms...)
	for _, a := range sf.Axioms {
		c.specFile["axiom:"+a.Name] = sf
	}
	c.lemmas = append(c.lemmas, sf.Lemmas...)
	for _, l := range sf.Lemmas {
		c.specFile["lemma:"+l.Name] = sf
	}
	for _, f := range sf.Funcs {
		pp := sf.PkgPath
		if f.Extern {
			pp = f.PkgPath
			if p, ok := sf.Imports[pp]; ok {
				pp = p
			}
			if pp == "builtin" {
				pp = ""
			}
		} else if pp == "" {
			return fmt.Errorf("%s: func contract outside a package contract file", f.Where)
		}
		f.PkgPath = pp
		key := pp + "." + f.Name
		if _, dup := c.contracts[key]; dup {
			return fmt.Errorf("%s: duplicate contract for %s", f.Where, key)
		}
		c.contracts[key] = f
		c.ctrFile[f] = sf
	}
	for _, p := range sf.Props {
		for _, pat := range p.Patterns {
			if sf.PkgPath != "" && !strings.HasPrefix(pat, "lemma:") && !strings.Contains(pat, "/") {
				pat = sf.PkgPath + "." + pat
			}
			c.props[p.ID] = append(c.props[p.ID], pat)
		}
	}
	return nil
}

func pkgOfQual(s string) string {
	if i := strings.LastIndex(s, "."); i >= 0 {
		return s[:i]
	}
	return ""
}

// fnKey is the stable name of a function: <pkgpath>.<Name>, <pkgpath>.(*T).M, closures <outer>$n.
func (c *Ctx) fnKey(fn *ssa.Function) string {
	if fn.Parent() != nil {
		root := fn.Parent()
		for root.Parent() != nil {
			root = root.Parent()
		}
		rk := c.fnKey(root)
		return rk + strings.TrimPrefix(fn.Name(), root.Name())
	}
	if fn.Signature.Recv() != nil {
		rt := fn.Signature.Recv().Type()
		ptr := ""
		if p, ok := rt.(*types.Pointer); ok {
			rt = p.Elem()
			ptr = "*"
		}
		if n, ok := rt.(*types.Named); ok {
			pp := ""
			if n.Obj().Pkg() != nil {
				pp = n.Obj().Pkg().Path()
			}
			return pp + ".(" + ptr + n.Obj().Name() + ")." + fn.Name()
		}
	}
	pp := ""
	if fn.Pkg != nil {
		pp = fn.Pkg.Pkg.Path()
	} else if fn.Object() != nil && fn.Object().Pkg() != nil {
		pp = fn.Object().Pkg().Path()
	}
	return pp + "." + fn.Name()
}

func (c *Ctx) ifaceKey(recv types.Type, method string) string {
	recv = types.Unalias(recv)
	if n, ok := recv.(*types.Named); ok {
		pp := ""
		if n.Obj().Pkg() != nil {
			pp = n.Obj().Pkg().Path()
		}
		return pp + ".(" + n.Obj().Name() + ")." + method
	}
	return "?.(" + recv.String() + ")." + method
}

// findFunc resolves a function key to its SSA function among the loaded packages.
func (c *Ctx) findFunc(key string) *ssa.Function {
	for _, sp := range c.ssaPkgs {
		pp := sp.Pkg.Path()
		if !strings.HasPrefix(key, pp+".") {
			continue
		}
		rest := key[len(pp)+1:]
		if strings.Contains(rest, "/") {
			continue
		}
		base := rest
		var anon []string
		if i := strings.Index(rest, "$"); i >= 0 {
			base = rest[:i]
			anon = strings.Split(rest[i+1:], "$")
		}
		var fn *ssa.Function
		if strings.HasPrefix(base, "(") {
			j := strings.Index(base, ").")
			tn, mn := base[1:j], base[j+2:]
			ptr := strings.HasPrefix(tn, "*")
			tn = strings.TrimPrefix(tn, "*")
			tm := sp.Members[tn]
			t, ok := tm.(*ssa.Type)
			if !ok {
				continue
			}
			var rt types.Type = t.Type()
			if ptr {
				rt = types.NewPointer(rt)
			}
			sel := c.prog.MethodSets.MethodSet(rt).Lookup(sp.Pkg, mn)
			if sel == nil {
				continue
			}
			fn = c.prog.MethodValue(sel)
			if fn != nil && fn.Synthetic != "" {
				// wrapper (promoted method, pointer wrapper of a value method): contracts bind to declared methods only
				fn = nil
			}
		} else {
			fn = sp.Func(base)
		}
		if fn == nil {
			continue
		}
		for _, a := range anon {
			var k int
			fmt.Sscanf(a, "%d", &k)
			if k < 1 || k > len(fn.AnonFuncs) {
				return nil
			}
			fn = fn.AnonFuncs[k-1]
		}
		return fn
	}
	return nil
}

func (c *Ctx) isDropped(key string) bool {
	for _, r := range c.dropped {
		if r.MatchString(key) {
			return true
		}
	}
	return false
}

func (c *Ctx) typeID(t types.Type) int {
	k := types.TypeString(t, nil)
	if id, ok := c.typeIDs[k]; ok {
		return id
	}
	// an id that depends on the type alone (not on the order in which types are first met): 40 bits of a hash,
	// with linear probing should two types ever collide
	id := stableID(k)
	for c.typeIDUsed[id] {
		id++
	}
	if c.typeIDUsed == nil {
		c.typeIDUsed = map[int]bool{}
	}
	c.typeIDUsed[id] = true
	c.typeIDs[k] = id
	return id
}

func stableID(key string) int {
	h := sha256.Sum256([]byte(key))
	v := 0
	for i := 0; i < 5; i++ {
		v = v<<8 | int(h[i])
	}
	return v + 1
}

func (c *Ctx) fnID(fn *ssa.Function) int {
	if id, ok := c.fnIDs[fn]; ok {
		return id
	}
	id := stableID("fn:" + c.fnKey(fn))
	for c.fnByID[id] != nil {
		id++
	}
	c.fnIDs[fn] = id
	c.fnByID[id] = fn
	return id
}

func (c *Ctx) globalKey(pkg *types.Package, name string) string {
	if pkg == nil {
		return name
	}
	return pkg.Path() + "." + name
}

func (c *Ctx) globalRefKey(k string) string {
	id, ok := c.globals[k]
	if !ok {
		id = len(c.globals) + 1
		c.globals[k] = id
	}
	return refRoot(intLit(int64(-id)))
}

func (c *Ctx) globalRef(gl *ssa.Global) string {
	return c.globalRefKey(c.globalKey(gl.Pkg.Pkg, gl.Name()))
}

func (c *Ctx) globalRefByObj(o *types.Var) string {
	return c.globalRefKey(c.globalKey(o.Pkg(), o.Name()))
}

// package-level variables of type error are treated as distinct non-nil constants
// (assumption A-GLOBALERR: they are initialised once and never reassigned).
func (c *Ctx) globalConst(g *FnGen, gl *ssa.Global) (string, bool) {
	et := gl.Type().(*types.Pointer).Elem()
	return c.globalConstT(c.globalKey(gl.Pkg.Pkg, gl.Name()), et)
}

func (c *Ctx) globalConstByObj(g *FnGen, o *types.Var) (string, bool) {
	return c.globalConstT(c.globalKey(o.Pkg(), o.Name()), o.Type())
}

// byteSliceInit finds the initialiser of a package-level []byte variable written as a
// composite literal of constants (the key prefixes) and returns its bytes.
func (c *Ctx) byteSliceInit(key string) (string, bool) {
	i := strings.LastIndex(key, ".")
	if i < 0 {
		return "", false
	}
	pp, name := key[:i], key[i+1:]
	for _, p := range c.pkgs {
		if p.PkgPath != pp {
			continue
		}
		for _, f := range p.Syntax {
			for _, d := range f.Decls {
				gd, ok := d.(*ast.GenDecl)
				if !ok || gd.Tok != token.VAR {
					continue
				}
				for _, sp := range gd.Specs {
					vs := sp.(*ast.ValueSpec)
					for k, n := range vs.Names {
						if n.Name != name || k >= len(vs.Values) {
							continue
						}
						cl, ok := vs.Values[k].(*ast.CompositeLit)
						if !ok {
							return "", false
						}
						var bs []byte
						for _, e := range cl.Elts {
							tv, ok := p.TypesInfo.Types[e]
							if !ok || tv.Value == nil {
								return "", false
							}
							v, ok := constant.Int64Val(tv.Value)
							if !ok || v < 0 || v > 255 {
								return "", false
							}
							bs = append(bs, byte(v))
						}
						return string(bs), true
					}
				}
			}
		}
	}
	return "", false
}

func (c *Ctx) globalConstT(key string, et types.Type) (string, bool) {
	if isByteSlice(et) {
		if bs, ok := c.byteSliceInit(key); ok {
			c.assumptionsUsed["A-GLOBALBYTES: package-level []byte key prefixes keep their initial value (never reassigned)"] = true
			return c.reg.strLit(bs), true
		}
	}
	if v, ok := c.globalVals[key]; ok && c.reg.sortOf(et) == "Str" {
		c.assumptionsUsed["A-GLOBALSTR: "+key+" keeps its initial value "+strconv.Quote(v)+" (never reassigned)"] = true
		return c.reg.strLit(v), true
	}
	if n, ok := et.(*types.Named); ok && n.Obj().Name() == "error" && n.Obj().Pkg() == nil {
		c.assumptionsUsed["A-GLOBALERR: package-level error variables are non-nil, pairwise distinct and never reassigned"] = true
		ref := c.globalRefKey(key)
		id := c.globals[key]
		return app("mk-iface", intLit(int64(1000000+id)), ref), true
	}
	return "", false
}

// implFun: uninterpreted predicate "dynamic type id implements interface T"
func (c *Ctx) implFun(t types.Type) string {
	n := "impl_" + sanitize(types.TypeString(types.Unalias(t), nil))
	c.implFuns[n] = true
	return n
}

func (c *Ctx) floatLit(s string) string {
	c.needFloat = true
	if n, ok := c.floatLits[s]; ok {
		return n
	}
	n := fmt.Sprintf("flit!%d", len(c.floatLits))
	c.floatLits[s] = n
	return n
}

func (c *Ctx) pkgByName(name string) *types.Package {
	var found *types.Package
	for _, p := range c.typesPkgs {
		if p.Name() == name {
			if found != nil && found != p {
				return nil
			}
			found = p
		}
	}
	return found
}

// resolvePkg resolves a package qualifier used in a contract.
func (c *Ctx) resolvePkg(name string, ctx *types.Package, sf *SpecFile) *types.Package {
	if sf != nil {
		if p, ok := sf.Imports[name]; ok {
			return c.typesPkgs[p]
		}
	}
	if ctx != nil {
		var found *types.Package
		n := 0
		for _, imp := range ctx.Imports() {
			if imp.Name() == name {
				found = imp
				n++
			}
		}
		if n == 1 {
			return found
		}
	}
	return c.pkgByName(name)
}

// specSort resolves a sort expression.
func (c *Ctx) specSort(s string, pkg *types.Package) Ty {
	switch s {
	case "int":
		return intTy()
	case "bool":
		return boolTy()
	case "str", "bytes", "string":
		return Ty{sort: "Str"}
	case "ref":
		return Ty{sort: "Ref"}
	case "iface", "error":
		return Ty{sort: "Iface"}
	case "slice":
		return Ty{sort: "Slice"}
	}
	if strings.HasPrefix(s, "map[") {
		depth, i := 0, 3
		for ; i < len(s); i++ {
			if s[i] == '[' {
				depth++
			} else if s[i] == ']' {
				depth--
				if depth == 0 {
					break
				}
			}
		}
		k := c.specSort(s[4:i], pkg)
		v := c.specSort(s[i+1:], pkg)
		return Ty{sort: "(Array " + k.sort + " " + v.sort + ")", key: &k, elem: &v}
	}
	t := c.goTypeOf(s, pkg)
	return Ty{sort: c.reg.sortOf(t), gt: t}
}

func (c *Ctx) goTypeOf(s string, pkg *types.Package) types.Type {
	switch {
	case strings.HasPrefix(s, "[]"):
		return types.NewSlice(c.goTypeOf(s[2:], pkg))
	case strings.HasPrefix(s, "*"):
		return types.NewPointer(c.goTypeOf(s[1:], pkg))
	}
	switch s {
	case "int64":
		return types.Typ[types.Int64]
	case "uint64":
		return types.Typ[types.Uint64]
	case "uint32":
		return types.Typ[types.Uint32]
	case "int32":
		return types.Typ[types.Int32]
	case "goint":
		return types.Typ[types.Int]
	case "gostring":
		return types.Typ[types.String]
	}
	var scope *types.Package = pkg
	name := s
	if i := strings.Index(s, "."); i >= 0 {
		scope = c.resolvePkg(s[:i], pkg, c.curFile)
		name = s[i+1:]
		if scope == nil {
			panic(genErr("cannot resolve package %q in sort %q", s[:i], s))
		}
	}
	if scope == nil {
		panic(genErr("cannot resolve sort %q (no package context)", s))
	}
	obj := scope.Scope().Lookup(name)
	tn, ok := obj.(*types.TypeName)
	if !ok {
		panic(genErr("sort %q: %s is not a type", s, name))
	}
	return types.Unalias(tn.Type())
}

func (c *Ctx) goTypeOfExpr(x Expr, pkg *types.Package) types.Type {
	switch n := x.(type) {
	case *EIdent:
		return c.goTypeOf(n.Name, pkg)
	case *EField:
		if id, ok := n.X.(*EIdent); ok {
			return c.goTypeOf(id.Name+"."+n.Name, pkg)
		}
	case *EUn:
		if n.Op == "*" {
			return types.NewPointer(c.goTypeOfExpr(n.X, pkg))
		}
	}
	panic(genErr("not a type expression: %s", exprString(x)))
}

// compiledSpec compiles a spec function to an SMT definition; heap-reading
// specs get the heaps they read as leading parameters.
func (c *Ctx) compiledSpec(sf *SpecFun) *compiledSpec {
	if cs, ok := c.compiled[sf.Name]; ok {
		return cs
	}
	file := c.specFile[sf.Name]
	var pkg *types.Package
	if file != nil && file.PkgPath != "" {
		pkg = c.typesPkgs[file.PkgPath]
	}
	saved := c.curFile
	c.curFile = file
	defer func() { c.curFile = saved }()
	cs := &compiledSpec{}
	for _, p := range sf.Params {
		cs.params = append(cs.params, c.specSort(p.Sort, pkg))
	}
	cs.ret = c.specSort(sf.Ret, pkg)
	c.compiled[sf.Name] = cs
	if sf.Body == nil {
		var ss []string
		for _, p := range cs.params {
			ss = append(ss, p.sort)
		}
		cs.def = fmt.Sprintf("(declare-fun %s (%s) %s)", sf.Name, strings.Join(ss, " "), cs.ret.sort)
		cs.done = true
		c.specOrder = append(c.specOrder, sf.Name)
		return cs
	}
	for iter := 0; iter < 5; iter++ {
		env := &Env{c: c, specMode: true, heapParams: map[string]bool{}, vars: map[string]TVal{}, pkg: pkg, twoHeaps: true, file: file}
		for i, p := range sf.Params {
			env.vars[p.Name] = TVal{term: "a_" + p.Name, ty: cs.params[i]}
		}
		body := env.eval(sf.Body)
		if body.ty.sort != cs.ret.sort {
			panic(genErr("%s: spec %s body has sort %s, declared %s", sf.Where, sf.Name, body.ty.sort, cs.ret.sort))
		}
		var hs []string
		for h := range env.heapParams {
			hs = append(hs, h)
		}
		sort.Strings(hs)
		if strings.Join(hs, ",") == strings.Join(cs.heaps, ",") {
			var ps []string
			for _, h := range hs {
				if strings.HasPrefix(h, "old:") {
					ps = append(ps, fmt.Sprintf("(hpo_%s (Array Ref %s))", heapName(h[4:]), h[4:]))
				} else {
					ps = append(ps, fmt.Sprintf("(hp_%s (Array Ref %s))", heapName(h), h))
				}
			}
			for i, p := range sf.Params {
				ps = append(ps, fmt.Sprintf("(a_%s %s)", p.Name, cs.params[i].sort))
			}
			kw := "define-fun"
			if strings.Contains(body.term, "("+sf.Name+" ") {
				kw = "define-fun-rec"
			}
			cs.def = fmt.Sprintf("(%s %s (%s) %s %s)", kw, sf.Name, strings.Join(ps, " "), cs.ret.sort, body.term)
			if kw == "define-fun" && !sf.Opaque {
				macroSpecs[sf.Name] = true
			}
			if sf.Opaque {
				var sorts, names []string
				for _, h := range hs {
					if strings.HasPrefix(h, "old:") {
						sorts = append(sorts, "(Array Ref "+h[4:]+")")
						names = append(names, "hpo_"+heapName(h[4:]))
					} else {
						sorts = append(sorts, "(Array Ref "+h+")")
						names = append(names, "hp_"+heapName(h))
					}
				}
				for i, p := range sf.Params {
					sorts = append(sorts, cs.params[i].sort)
					names = append(names, "a_"+p.Name)
				}
				appl := app(sf.Name, names...)
				cs.def = fmt.Sprintf("(declare-fun %s (%s) %s)\n(assert (forall (%s) (! (= %s %s) :pattern (%s))))", sf.Name, strings.Join(sorts, " "), cs.ret.sort, strings.Join(ps, " "), appl, body.term, appl)
				if sf.Abstract {
					cs.def = fmt.Sprintf("(declare-fun %s (%s) %s)", sf.Name, strings.Join(sorts, " "), cs.ret.sort)
					cs.absDef = fmt.Sprintf("(assert (forall (%s) (! (= %s %s) :pattern (%s))))", strings.Join(ps, " "), appl, body.term, appl)
				}
			}
			cs.done = true
			c.specOrder = append(c.specOrder, sf.Name)
			return cs
		}
		cs.heaps = hs
	}
	panic(genErr("spec %s: heap parameter inference did not converge", sf.Name))
}

// lemmaFormula compiles a lemma to (binders, requires, ensures, triggers).
func (c *Ctx) lemmaFormula(l *Lemma, suffix string) (binders []string, req, ens string, trig string) {
	file := c.specFile["lemma:"+l.Name]
	var pkg *types.Package
	if file != nil && file.PkgPath != "" {
		pkg = c.typesPkgs[file.PkgPath]
	}
	saved := c.curFile
	c.curFile = file
	defer func() { c.curFile = saved }()
	env := &Env{c: c, specMode: true, heapParams: map[string]bool{}, vars: map[string]TVal{}, pkg: pkg, file: file, twoHeaps: true}
	for _, p := range l.Params {
		ty := c.specSort(p.Sort, pkg)
		n := "m_" + p.Name + suffix
		env.vars[p.Name] = TVal{term: n, ty: ty}
		binders = append(binders, "("+n+" "+ty.sort+")")
	}
	var rs, es []string
	for _, p := range l.Params {
		v := env.vars[p.Name]
		if v.ty.gt != nil && !l.Untyped {
			if inv := c.valueTypeInv(v.term, v.ty.gt, 0); inv != "true" {
				rs = append(rs, inv)
			}
		}
	}
	for _, r := range l.Requires {
		rs = append(rs, env.boolExpr(r.E))
	}
	for _, e := range l.Ensures {
		es = append(es, env.boolExpr(e.E))
	}
	var ts []string
	var groups []string
	for _, grp := range l.TrigGroups {
		var gts []string
		for _, t := range grp {
			gts = append(gts, env.eval(t.E).term)
		}
		ts = append(ts, gts...)
		groups = append(groups, ":pattern ("+strings.Join(gts, " ")+")")
	}
	var hs []string
	for h := range env.heapParams {
		hs = append(hs, h)
	}
	sort.Strings(hs)
	for _, h := range hs {
		if strings.HasPrefix(h, "old:") {
			h = h[4:]
			binders = append(binders, fmt.Sprintf("(hpo_%s (Array Ref %s))", heapName(h), h))
		} else {
			binders = append(binders, fmt.Sprintf("(hp_%s (Array Ref %s))", heapName(h), h))
		}
	}
	if len(ts) > 0 {
		// every `trigger` line is an alternative multi-pattern
		trig = strings.Join(groups, " ")
	}
	return binders, and(rs...), and(es...), trig
}

// lemmaAxiom: the lemma as an assumption.  Heap-reading lemmas are NOT
// quantified over heap arrays (quantifiers over array sorts made z3 5.1.0
// return a wrong `unsat`, see DESIGN.md section 9); they are emitted as a
// template  ;;HEAPLEMMA sort|oldsort|text  instantiated per query with the
// heap terms that occur in it.
func (c *Ctx) lemmaAxiom(l *Lemma) string {
	b, req, ens, trig := c.lemmaFormula(l, "")
	body := implies(req, ens)
	if trig != "" {
		body = "(! " + body + " " + trig + ")"
	}
	var plain, heaps []string
	for _, bd := range b {
		if strings.HasPrefix(bd, "(hp_") || strings.HasPrefix(bd, "(hpo_") {
			heaps = append(heaps, strings.Fields(strings.Trim(bd, "()"))[0])
		} else {
			plain = append(plain, bd)
		}
	}
	if len(heaps) == 0 {
		return fmt.Sprintf("(assert (forall (%s) %s)) ; lemma %s", strings.Join(b, " "), body, l.Name)
	}
	f := body
	if len(plain) > 0 {
		f = fmt.Sprintf("(forall (%s) %s)", strings.Join(plain, " "), body)
	}
	return ";;HEAPLEMMA " + strings.Join(heaps, ",") + "|(assert " + f + ") ; lemma " + l.Name
}

// lemmaObligations: the proof obligation of a lemma.  With `induction k` the
// induction hypothesis (the lemma for all smaller non-negative values of k,
// all other parameters universally quantified) is assumed.
func (c *Ctx) lemmaObligations(name string) ([]*Obligation, error) {
	var lm *Lemma
	idx := -1
	for i, l := range c.lemmas {
		if l.Name == name {
			lm, idx = l, i
		}
	}
	if lm == nil {
		return nil, fmt.Errorf("no lemma %s", name)
	}
	var b strings.Builder
	binders, req, ens, _ := c.lemmaFormula(lm, "")
	// earlier lemmas may be used; only those that talk about this lemma's symbols (or symbols of their
	// definitions, two levels deep) are given to the solver
	rel := map[string]bool{}
	for _, n := range c.specSymbolsIn(req + " " + ens) {
		rel[n] = true
	}
	for depth := 0; depth < 2; depth++ {
		for n := range rel {
			if cs := c.compiled[n]; cs != nil {
				for _, m := range c.specSymbolsIn(cs.def + " " + cs.absDef) {
					rel[m] = true
				}
			}
		}
	}
	for _, bd := range binders {
		b.WriteString("(declare-fun " + strings.Replace(strings.TrimSuffix(strings.TrimPrefix(bd, "("), ")"), " ", " () ", 1) + ")\n")
	}
	for _, l := range c.lemmas[:idx] {
		ax := c.lemmaAxiom(l)
		use := false
		for _, n := range c.specSymbolsIn(ax) {
			if rel[n] {
				use = true
			}
		}
		if use {
			if strings.HasPrefix(ax, ";;HEAPLEMMA ") {
				// an earlier heap-reading lemma: instantiated with this lemma's own heaps (current, and - for a
				// one-heap lemma - also the old heap)
				avail := map[string]bool{}
				for _, bd := range binders {
					avail[strings.Fields(strings.Trim(bd, "()"))[0]] = true
				}
				rest := strings.TrimPrefix(ax, ";;HEAPLEMMA ")
				bar := strings.Index(rest, "|")
				vars, text := strings.Split(rest[:bar], ","), rest[bar+1:]
				inst := func(toOld bool) {
					out := text
					for _, v := range vars {
						tgt := v
						if toOld {
							if strings.HasPrefix(v, "hpo_") {
								return
							}
							tgt = "hpo_" + strings.TrimPrefix(v, "hp_")
						}
						if !avail[tgt] {
							return
						}
						out = regexp.MustCompile(`\b`+regexp.QuoteMeta(v)+`\b`).ReplaceAllString(out, "@@"+tgt)
					}
					b.WriteString(strings.ReplaceAll(out, "@@", "") + "\n")
				}
				inst(false)
				inst(true)
				continue
			}
			b.WriteString(ax + "\n")
		}
	}
	if lm.Induct != "" {
		ib, ireq, iens, itrig := c.lemmaFormula(lm, "_ih")
		k, kih := "m_"+lm.Induct, "m_"+lm.Induct+"_ih"
		var kept []string
		ibody := implies(and(app("<=", "0", kih), app("<", kih, k), ireq), iens)
		// heaps are shared (not re-quantified) in the hypothesis
		for _, bd := range ib {
			if !strings.HasPrefix(bd, "(hp_") && !strings.HasPrefix(bd, "(hpo_") {
				kept = append(kept, bd)
			}
		}
		if itrig != "" {
			ibody = "(! " + ibody + " " + itrig + ")"
		}
		b.WriteString(fmt.Sprintf("(assert (forall (%s) %s))\n", strings.Join(kept, " "), ibody))
		// the hypothesis for the immediate predecessor with all other parameters unchanged, as a ground fact
		// (the common shape of these inductions; spares the solver the instantiation and puts f(k-1) in the term pool)
		var lets []string
		for _, bd := range kept {
			name := strings.Fields(strings.Trim(bd, "()"))[0]
			base := strings.TrimSuffix(name, "_ih")
			if name == kih {
				lets = append(lets, fmt.Sprintf("(%s (- %s 1))", name, k))
			} else {
				lets = append(lets, fmt.Sprintf("(%s %s)", name, base))
			}
		}
		b.WriteString(fmt.Sprintf("(assert (let (%s) %s))\n", strings.Join(lets, " "), implies(and(app("<=", "0", kih), ireq), iens)))
		// term seeding: the last element of every slice parameter enters the term pool, so that element-wise
		// hypotheses (patterns over elemref) can be instantiated for it
		seeded := false
		for _, bd := range binders {
			f := strings.Fields(strings.Trim(bd, "()"))
			if len(f) == 2 && f[1] == "Slice" {
				if !seeded {
					b.WriteString("(declare-fun seed!ref (Ref) Bool)\n")
					seeded = true
				}
				b.WriteString(fmt.Sprintf("(assert (seed!ref (elemref %s (- %s 1))))\n", f[0], k))
			}
		}
	}
	b.WriteString("(assert " + req + ")\n(assert (not " + ens + "))\n")
	o := &Obligation{Name: "lemma:" + name, Fn: "lemma:" + name, Kind: "lemma", Src: "lemma " + name, Where: lm.Where, Query: b.String(), NoLemmas: true, Native: lm.Theory == "strings", Uses: lm.Uses}
	return []*Obligation{o}, nil
}

type preItem struct {
	absDef  bool
	native  string // alternative text under the native string theory
	auto    bool
	name    string
	trig    []string // spec symbols in the triggers (lemmas): all must be needed for the lemma to be usable
	text    string
	defines string   // spec symbol defined (for spec functions)
	uses    []string // spec symbols mentioned
	lemma   bool
}

type Prelude struct {
	baseNative string
	post       string // heap-lemma instances of the last For() call (must follow the query's declarations)
	base       string
	items      []preItem
	names      []string // all spec symbols
}

func (c *Ctx) specSymbolsIn(text string) []string {
	var out []string
	for n := range c.compiled {
		if containsToken(text, n) {
			out = append(out, n)
		}
	}
	sort.Strings(out)
	return out
}

// prelude: registry prelude + heap-independent helper functions, then the
// selectable items (spec functions, axioms, lemmas).
func (c *Ctx) prelude() *Prelude {
	var ax []string
	for _, a := range c.axioms {
		file := c.specFile["axiom:"+a.Name]
		var pkg *types.Package
		if file != nil && file.PkgPath != "" {
			pkg = c.typesPkgs[file.PkgPath]
		}
		c.curFile = file
		env := &Env{c: c, specMode: true, heapParams: map[string]bool{}, vars: map[string]TVal{}, pkg: pkg, file: file}
		t := env.boolExpr(a.E)
		if len(env.heapParams) > 0 {
			panic(genErr("%s: axiom %s reads the heap", a.Where, a.Name))
		}
		ax = append(ax, fmt.Sprintf("(assert (! %s :named ax_%s))", t, sanitize(a.Name)))
	}
	c.curFile = nil
	var lemAx []string
	for _, l := range c.lemmas {
		lemAx = append(lemAx, c.lemmaAxiom(l))
	}
	c.reg.strLit("")
	var bn strings.Builder
	bn.WriteString(c.reg.prelude(true))
	bn.WriteString("(define-fun sidx ((s Str) (i Int)) Int (str.to_code (str.at s i)))\n(define-fun ssub ((s Str) (lo Int) (hi Int)) Str (str.substr s lo (- hi lo)))\n(define-fun chr ((n Int)) Str (str.from_code n))\n(define-fun slt ((a Str) (b Str)) Bool (str.< a b))\n")
	var b strings.Builder
	b.WriteString(c.reg.prelude(false))
	if c.needSidx {
		b.WriteString("(declare-fun sidx (Str Int) Int)\n(declare-fun ssub (Str Int Int) Str)\n(declare-fun chr (Int) Str)\n")
	}
	common := &strings.Builder{}
	if c.needSlt {
		b.WriteString("(declare-fun slt (Str Str) Bool)\n")
		b.WriteString("(assert (forall ((a Str)) (! (not (slt a a)) :pattern ((slt a a)))))\n")
		b.WriteString("(assert (forall ((a Str) (b Str)) (! (or (slt a b) (slt b a) (= a b)) :pattern ((slt a b)))))\n")
		b.WriteString("(assert (forall ((a Str) (b Str)) (! (not (and (slt a b) (slt b a))) :pattern ((slt a b)))))\n")
		b.WriteString("(assert (forall ((a Str) (b Str) (c Str)) (! (=> (and (slt a b) (slt b c)) (slt a c)) :pattern ((slt a b) (slt b c)))))\n")
	}
	for f := range c.implFuns {
		fmt.Fprintf(common, "(declare-fun %s (Int) Bool)\n", f)
	}
	if c.needBits {
		for _, op := range []string{"<<", ">>", "&", "|", "^", "&^"} {
			fmt.Fprintf(common, "(declare-fun bits_%s (Int Int) Int)\n", sanitize(op))
		}
	}
	if c.needFloat {
		common.WriteString("(declare-fun fzero () Float)\n(declare-fun fadd (Float Float) Float)\n(declare-fun fsub (Float Float) Float)\n(declare-fun fmul (Float Float) Float)\n(declare-fun fdiv (Float Float) Float)\n(declare-fun flt (Float Float) Bool)\n(declare-fun i2f (Int) Float)\n(declare-fun f2i (Float) Int)\n")
		for s, n := range c.floatLits {
			fmt.Fprintf(common, "(declare-fun %s () Float) ; %s\n", n, s)
		}
	}
	for ds := range c.cardSorts {
		fmt.Fprintf(common, "(declare-fun card_%s (%s) Int)\n(assert (forall ((d %s)) (! (>= (card_%s d) 0) :pattern ((card_%s d)))))\n", sanitize(heapName(ds)), ds, ds, sanitize(heapName(ds)), sanitize(heapName(ds)))
	}
	var cs []string
	for srt := range c.codecs {
		cs = append(cs, srt)
	}
	sort.Strings(cs)
	for _, srt := range cs {
		n := sanitize(srt)
		fmt.Fprintf(common, "(declare-fun enc_%s (%s) Str)\n(declare-fun dec_%s (Str) %s)\n(assert (forall ((v %s)) (! (= (dec_%s (enc_%s v)) v) :pattern ((enc_%s v)))))\n", n, srt, n, srt, srt, n, n, n)
	}
	p := &Prelude{base: b.String() + common.String(), baseNative: bn.String() + common.String()}
	for _, n := range c.canonicalSpecOrder() {
		def := c.compiled[n].def
		var uses []string
		for _, u := range c.specSymbolsIn(def) {
			if u != n {
				uses = append(uses, u)
			}
		}
		it := preItem{text: def, defines: n, uses: uses}
		if sf := c.specs[n]; sf != nil && sf.Native != "" {
			cs := c.compiled[n]
			var ps []string
			for i, pp := range sf.Params {
				ps = append(ps, fmt.Sprintf("(a_%s %s)", pp.Name, cs.params[i].sort))
			}
			it.native = fmt.Sprintf("(define-fun %s (%s) %s %s)", n, strings.Join(ps, " "), cs.ret.sort, sf.Native)
		}
		p.items = append(p.items, it)
		if ad := c.compiled[n].absDef; ad != "" {
			p.items = append(p.items, preItem{text: ad, uses: append(c.specSymbolsIn(ad), n), lemma: true, name: "def:" + n, absDef: true})
		}
	}
	for _, a := range ax {
		p.items = append(p.items, preItem{text: a, uses: c.specSymbolsIn(a)})
	}
	for i, l := range lemAx {
		it := preItem{text: l, uses: c.specSymbolsIn(l), lemma: true, name: c.lemmas[i].Name, auto: c.lemmas[i].Auto}
		if j := strings.Index(l, ":pattern"); j >= 0 && len(c.lemmas[i].Triggers) > 0 {
			it.trig = c.specSymbolsIn(l[j:])
		}
		p.items = append(p.items, it)
	}
	return p
}

// For selects the prelude items relevant to a query: spec functions it
// mentions (transitively), and the axioms / lemmas that talk about them.
func (p *Prelude) For(query string, noLemmas bool, uses []string, native bool) (string, string) {
	usesSet := map[string]bool{}
	for _, u := range uses {
		usesSet[u] = true
	}
	pp := *p
	p = &pp
	p.post = ""
	needed := map[string]bool{}
	for _, it := range p.items {
		if it.defines != "" && containsToken(query, it.defines) {
			needed[it.defines] = true
		}
	}
	include := make([]bool, len(p.items))
	for changed := true; changed; {
		changed = false
		for i, it := range p.items {
			if include[i] || (it.lemma && noLemmas && !it.absDef) {
				continue
			}
			take := false
			if it.absDef {
				take = (native || usesSet[it.name]) && needed[it.uses[len(it.uses)-1]]
			} else if it.lemma && !it.auto {
				take = usesSet[it.name]
			} else if it.defines != "" {
				take = needed[it.defines]
			} else if len(it.trig) > 0 {
				take = true
				for _, u := range it.trig {
					if !needed[u] {
						take = false
					}
				}
			} else {
				for _, u := range it.uses {
					if needed[u] {
						take = true
					}
				}
				if len(it.uses) == 0 {
					take = true
				}
			}
			if take {
				include[i] = true
				changed = true
				for _, u := range it.uses {
					if !needed[u] {
						needed[u] = true
					}
				}
			}
		}
	}
	var b strings.Builder
	if native {
		b.WriteString(p.baseNative)
	} else {
		b.WriteString(p.base)
	}
	for i, it := range p.items {
		if !include[i] {
			continue
		}
		if native && it.native != "" {
			b.WriteString(it.native + "\n")
			continue
		}
		if strings.HasPrefix(it.text, ";;HEAPLEMMA ") {
			p.post += expandHeapLemma(it.text, query)
			continue
		}
		b.WriteString(it.text + "\n")
	}
	return b.String(), p.post
}

var heapTermRe = regexp.MustCompile(`H_[A-Za-z0-9_.]+![0-9]+`)

// expandHeapLemma instantiates a heap-reading lemma with every combination of
// heap terms (of the right sort) occurring in the query.
// heapStates: the tuples of heap terms that occur as leading arguments of applications of the given spec functions.
func heapStates(query string, specNames []string) []map[string]string {
	seen := map[string]bool{}
	var out []map[string]string
	for _, sn := range specNames {
		re := regexp.MustCompile(`\(` + regexp.QuoteMeta(sn) + `((?: H_[A-Za-z0-9_().]+![0-9]+)+)[ )]`)
		for _, m := range re.FindAllStringSubmatch(query, -1) {
			key := strings.TrimSpace(m[1])
			if seen[key] {
				continue
			}
			seen[key] = true
			st := map[string]string{}
			for _, t := range strings.Fields(key) {
				name := t[:strings.Index(t, "!")]
				for _, suf := range []string{"_h", "_c", "_cp", "_ap", "_it", "_cb"} {
					name = strings.TrimSuffix(name, suf)
				}
				st[name] = t
			}
			out = append(out, st)
		}
	}
	// keep the states with the most heaps only (applications of functions reading fewer heaps are projections)
	max := 0
	for _, m := range out {
		if len(m) > max {
			max = len(m)
		}
	}
	var full []map[string]string
	for _, m := range out {
		if len(m) == max {
			full = append(full, m)
		}
	}
	return full
}

func expandHeapLemma(tmpl, query string) string {
	rest := strings.TrimPrefix(tmpl, ";;HEAPLEMMA ")
	i := strings.Index(rest, "|")
	vars, text := strings.Split(rest[:i], ","), rest[i+1:]
	seen := map[string]bool{}
	bySort := map[string][]string{}
	for _, t := range heapTermRe.FindAllString(query, -1) {
		if seen[t] {
			continue
		}
		seen[t] = true
		// H_Int_h!15 -> sort key H_Int ; match by longest variable-sort prefix
		bySort[t] = nil
	}
	var terms []string
	for t := range seen {
		terms = append(terms, t)
	}
	sort.Strings(terms)
	cands := make([][]string, len(vars))
	for vi, v := range vars {
		hs := strings.TrimPrefix(strings.TrimPrefix(v, "hpo_"), "hp_") // e.g. H_Int
		for _, t := range terms {
			name := t[:strings.Index(t, "!")]
			if name == hs || strings.HasPrefix(name, hs+"_") {
				// exclude longer sort names sharing the prefix (H_Int vs H_Int_x is ambiguous only for suffixes we generate: _h,_c,_cp,_ap)
				suf := strings.TrimPrefix(name, hs)
				if suf == "" || suf == "_h" || suf == "_c" || suf == "_cp" || suf == "_ap" {
					cands[vi] = append(cands[vi], t)
				}
			}
		}
		if len(cands[vi]) == 0 {
			return ""
		}
	}
	// keep only heap terms that occur as an argument of one of the lemma's spec functions
	var specNames []string
	for _, m := range regexp.MustCompile(`\(([A-Za-z_][A-Za-z0-9_]*) hpo?_`).FindAllStringSubmatch(text, -1) {
		specNames = append(specNames, m[1])
	}
	used := func(t string) bool {
		for _, sn := range specNames {
			if regexp.MustCompile(`\(` + sn + `( H_[^ ()]+)* ` + regexp.QuoteMeta(t) + `[ )]`).MatchString(query) {
				return true
			}
		}
		return len(specNames) == 0
	}
	for vi := range cands {
		var kept []string
		for _, t := range cands[vi] {
			if used(t) {
				kept = append(kept, t)
			}
		}
		cands[vi] = kept
		if len(kept) == 0 {
			return ""
		}
	}
	// states: heap versions that occur together as the leading arguments of one spec-function application belong to
	// one program state; a lemma is instantiated with whole states (current x old), not with every mix of versions
	if os.Getenv("VERIF_DEBUG_HEAP") != "" {
		fmt.Fprintf(os.Stderr, "heap lemma vars=%v specs=%v states=%v\n", vars, specNames, heapStates(query, specNames))
	}
	if st := heapStates(query, specNames); len(st) > 0 {
		var curVars, oldVars []string
		for _, v := range vars {
			if strings.HasPrefix(v, "hpo_") {
				oldVars = append(oldVars, v)
			} else {
				curVars = append(curVars, v)
			}
		}
		sortOfVar := func(v string) string { return strings.TrimPrefix(strings.TrimPrefix(v, "hpo_"), "hp_") }
		covers := func(state map[string]string, vs []string) bool {
			for _, v := range vs {
				if _, ok := state[sortOfVar(v)]; !ok {
					return false
				}
			}
			return true
		}
		var full []map[string]string
		for _, m := range st {
			if covers(m, curVars) && covers(m, oldVars) {
				full = append(full, m)
			}
		}
		if len(full) > 0 {
			var out strings.Builder
			n := 0
			for _, cs := range full {
				olds := full
				if len(oldVars) == 0 {
					olds = full[:1]
				}
				for _, os := range olds {
					if n > 120 {
						break
					}
					cur := text
					for _, v := range curVars {
						cur = replaceToken(cur, v, cs[sortOfVar(v)])
					}
					same := true
					for _, v := range oldVars {
						cur = replaceToken(cur, v, os[sortOfVar(v)])
						if os[sortOfVar(v)] != cs[sortOfVar(v)] {
							same = false
						}
					}
					if len(oldVars) > 0 && same {
						continue
					}
					out.WriteString(cur + "\n")
					n++
				}
			}
			if n > 0 {
				return out.String()
			}
		}
	}
	var out strings.Builder
	var rec func(vi int, cur string)
	n := 0
	rec = func(vi int, cur string) {
		if n > 400 {
			return
		}
		if vi == len(vars) {
			if !strings.Contains(cur, "hp_") && !strings.Contains(cur, "hpo_") && !(len(vars) > 1 && heapLemmaTrivial(cur)) {
				out.WriteString(cur + "\n")
				n++
			}
			return
		}
		for _, t := range cands[vi] {
			rec(vi+1, replaceToken(cur, vars[vi], t))
		}
	}
	rec(0, text)
	return out.String()
}

func replaceToken(s, tok, with string) string {
	var b strings.Builder
	for i := 0; i < len(s); {
		j := strings.Index(s[i:], tok)
		if j < 0 {
			b.WriteString(s[i:])
			break
		}
		j += i
		end := j + len(tok)
		before := j == 0 || strings.ContainsRune(" ()", rune(s[j-1]))
		after := end == len(s) || strings.ContainsRune(" ()", rune(s[end]))
		b.WriteString(s[i:j])
		if before && after {
			b.WriteString(with)
		} else {
			b.WriteString(tok)
		}
		i = end
	}
	return b.String()
}

// an instance relating a heap to itself says nothing
func heapLemmaTrivial(inst string) bool {
	ts := heapTermRe.FindAllString(inst, -1)
	if len(ts) == 0 {
		return false
	}
	for _, t := range ts[1:] {
		if t != ts[0] {
			return false
		}
	}
	return true
}

// valueTypeInv: range constraints of the integer fields of a pure value (no references).
func (c *Ctx) valueTypeInv(v string, t types.Type, depth int) string {
	t = types.Unalias(t)
	if n, ok := t.(*types.Named); ok {
		if _, ok := c.reg.opaque[qualName(n)]; ok {
			return "true"
		}
	}
	switch u := t.Underlying().(type) {
	case *types.Basic:
		if u.Info()&types.IsInteger != 0 {
			lo, hi := intRange(u.Kind())
			return and(app("<=", lo, v), app("<=", v, hi))
		}
	case *types.Struct:
		if si := c.reg.structOf(t); si != nil && depth < 4 {
			var cs []string
			for _, f := range si.fields {
				cs = append(cs, c.valueTypeInv(app(f.acc, v), f.typ, depth+1))
			}
			return and(cs...)
		}
	}
	return "true"
}

// canonicalSpecOrder: the compiled spec functions, each after the spec functions its definition mentions, ties broken by
// name - independent of the order in which the generator first needed them.
func (c *Ctx) canonicalSpecOrder() []string {
	names := append([]string{}, c.specOrder...)
	sort.Strings(names)
	known := map[string]bool{}
	for _, n := range names {
		known[n] = true
	}
	var out []string
	state := map[string]int{}
	var visit func(n string)
	visit = func(n string) {
		if state[n] != 0 {
			return
		}
		state[n] = 1
		txt := c.compiled[n].def + "\n" + c.compiled[n].absDef
		deps := c.specSymbolsIn(txt)
		sort.Strings(deps)
		for _, d := range deps {
			if d != n && known[d] {
				visit(d)
			}
		}
		state[n] = 2
		out = append(out, n)
	}
	for _, n := range names {
		visit(n)
	}
	return out
}

package main

// Structural obligations (C07): the state-transition code stays inside the deterministic fragment.
//
// `structural <Cxx> nondet-free <root-regex>...` in specs/properties.conf: starting from the functions whose key matches
// a root regex (message handlers, hooks, block hooks, genesis), every function of this repository reachable through the
// static call graph (direct calls, closures, interface calls resolved to every implementing type of the loaded packages)
// gets one obligation `nondet-free`, discharged syntactically: its body contains no source of nondeterminism -
// no range over a Go map, no select, no goroutine, no call into time, math/rand, crypto/rand, os, no pointer-to-integer
// conversion.  A range over a map is accepted only under the collect-then-sort rule
// (mapRangeSortedByKey below).  These are counted separately from the
// SMT obligations (kind "structural").

import (
	"fmt"
	"go/ast"
	"go/token"
	"go/types"
	"regexp"
	"sort"
	"strings"

	"golang.org/x/tools/go/ssa"
)

type structFinding struct {
	fn, what string
}

const repoModule = "github.com/ovrclk/akash"

func (c *Ctx) structuralNondetFree(rootRes []string, exempt map[string]bool) (checked []string, findings []structFinding, notes []string) {
	var res []*regexp.Regexp
	for _, r := range rootRes {
		res = append(res, regexp.MustCompile(r))
	}
	inRepo := func(fn *ssa.Function) bool {
		return fn != nil && fn.Pkg != nil && strings.HasPrefix(fn.Pkg.Pkg.Path(), repoModule) && len(fn.Blocks) > 0
	}
	// all functions of the loaded packages (members, methods, anonymous)
	var all []*ssa.Function
	seenAll := map[*ssa.Function]bool{}
	var addFn func(fn *ssa.Function)
	addFn = func(fn *ssa.Function) {
		if fn == nil || seenAll[fn] {
			return
		}
		seenAll[fn] = true
		all = append(all, fn)
		for _, a := range fn.AnonFuncs {
			addFn(a)
		}
	}
	var namedTypes []types.Type
	for _, sp := range c.ssaPkgs {
		for _, m := range sp.Members {
			switch x := m.(type) {
			case *ssa.Function:
				addFn(x)
			case *ssa.Type:
				t := x.Type()
				namedTypes = append(namedTypes, t)
				for _, tt := range []types.Type{t, types.NewPointer(t)} {
					ms := c.prog.MethodSets.MethodSet(tt)
					for i := 0; i < ms.Len(); i++ {
						addFn(c.prog.MethodValue(ms.At(i)))
					}
				}
			}
		}
	}
	var work []*ssa.Function
	reach := map[*ssa.Function]bool{}
	missing := map[string]bool{}
	push := func(fn *ssa.Function) {
		if fn != nil && fn.Pkg != nil && strings.HasPrefix(fn.Pkg.Pkg.Path(), repoModule) && len(fn.Blocks) == 0 {
			missing[fn.Pkg.Pkg.Path()] = true
		}
		if inRepo(fn) && !reach[fn] && fn.Synthetic == "" {
			reach[fn] = true
			work = append(work, fn)
		} else if inRepo(fn) && !reach[fn] && fn.Synthetic != "" {
			// wrappers: follow through
			reach[fn] = true
			work = append(work, fn)
		}
	}
	for _, fn := range all {
		k := c.fnKey(fn)
		for _, re := range res {
			if re.MatchString(k) {
				push(fn)
			}
		}
	}
	dynCalls := 0
	for len(work) > 0 {
		fn := work[len(work)-1]
		work = work[:len(work)-1]
		for _, a := range fn.AnonFuncs {
			push(a)
		}
		for _, b := range fn.Blocks {
			for _, ins := range b.Instrs {
				ci, ok := ins.(ssa.CallInstruction)
				if !ok {
					continue
				}
				com := ci.Common()
				if com.IsInvoke() {
					it, _ := com.Value.Type().Underlying().(*types.Interface)
					if it == nil {
						continue
					}
					for _, t := range namedTypes {
						for _, tt := range []types.Type{t, types.NewPointer(t)} {
							if _, isI := tt.Underlying().(*types.Interface); isI {
								continue
							}
							if types.Implements(tt, it) {
								if sel := c.prog.MethodSets.MethodSet(tt).Lookup(com.Method.Pkg(), com.Method.Name()); sel != nil {
									push(c.prog.MethodValue(sel))
								}
							}
						}
					}
					continue
				}
				if sc := com.StaticCallee(); sc != nil {
					push(sc)
					continue
				}
				if mc, ok := com.Value.(*ssa.MakeClosure); ok {
					push(mc.Fn.(*ssa.Function))
					continue
				}
				if _, ok := com.Value.(*ssa.Builtin); !ok {
					dynCalls++
				}
			}
		}
	}
	var fns []*ssa.Function
	for fn := range reach {
		if fn.Synthetic == "" {
			fns = append(fns, fn)
		}
	}
	sort.Slice(fns, func(i, j int) bool { return c.fnKey(fns[i]) < c.fnKey(fns[j]) })
	sortedRanges := 0
	var miss []string
	for m := range missing {
		miss = append(miss, m)
	}
	sort.Strings(miss)
	for _, m := range miss {
		findings = append(findings, structFinding{"#packages", "reachable package " + m + " is not among the packages loaded for this property (add it to specs/properties.conf)"})
	}
	badPkg := map[string]bool{"time": true, "math/rand": true, "crypto/rand": true, "os": true, "runtime": true, "unsafe": true}
	badOK := map[string]bool{"time.Duration": true} // pure helpers
	for _, fn := range fns {
		key := c.fnKey(fn)
		checked = append(checked, key)
		for _, b := range fn.Blocks {
			for _, ins := range b.Instrs {
				switch x := ins.(type) {
				case *ssa.Range:
					if _, isMap := x.X.Type().Underlying().(*types.Map); isMap && !exempt[key] {
						if ok, why := c.mapRangeSortedByKey(x.Pos()); ok {
							sortedRanges++
						} else {
							findings = append(findings, structFinding{key, "range over a map (iteration order is random) at " + c.fset.Position(x.Pos()).String() + ": " + why})
						}
					}
				case *ssa.MapUpdate:
					// process-local state: a map that was not made in this function (a field of a keeper, a global) survives
					// the transaction, is not rolled back with the store and is not part of the replicated state
					if keeperOrGlobalState(fn, x.Map) {
						findings = append(findings, structFinding{key, "update of a map that outlives the call (state outside the store) at " + c.fset.Position(x.Pos()).String()})
					}
				case *ssa.Store:
					if g, ok := x.Addr.(*ssa.Global); ok && !strings.HasPrefix(g.Name(), "init$") {
						findings = append(findings, structFinding{key, "assignment to the package variable " + g.Name() + " (state outside the store) at " + c.fset.Position(x.Pos()).String()})
					}
				case *ssa.Select:
					findings = append(findings, structFinding{key, "select statement at " + c.fset.Position(x.Pos()).String()})
				case *ssa.Go:
					findings = append(findings, structFinding{key, "goroutine started at " + c.fset.Position(x.Pos()).String()})
				case *ssa.Convert:
					if b, ok := x.Type().Underlying().(*types.Basic); ok && b.Kind() == types.Uintptr {
						findings = append(findings, structFinding{key, "pointer converted to an integer at " + c.fset.Position(x.Pos()).String()})
					}
				case ssa.CallInstruction:
					if sc := x.Common().StaticCallee(); sc != nil && sc.Pkg != nil {
						pp := sc.Pkg.Pkg.Path()
						nm := pp + "." + sc.Name()
						// library calls whose result depends on the clock or on an unspecified order
						if pp == "crypto/x509" && sc.Name() == "Verify" && sc.Signature.Recv() != nil && !verifyOptsSetTime(x.Common()) {
							findings = append(findings, structFinding{key, "x509 Verify without VerifyOptions.CurrentTime reads the wall clock, at " + c.fset.Position(x.Pos()).String()})
						}
						if (pp == "reflect" && (sc.Name() == "MapKeys" || sc.Name() == "MapRange")) || (pp == "sync" && sc.Name() == "Range") {
							findings = append(findings, structFinding{key, "call of " + nm + " (unspecified iteration order) at " + c.fset.Position(x.Pos()).String()})
						}
						if badPkg[pp] && !badOK[nm] && !(pp == "os" && false) {
							if pp == "time" && (sc.Name() != "Now" && sc.Name() != "Since" && sc.Name() != "Until" && sc.Name() != "After" && sc.Name() != "Sleep" && sc.Name() != "NewTimer" && sc.Name() != "Tick") {
								continue
							}
							if pp == "os" && (sc.Name() != "Getenv" && sc.Name() != "Hostname" && sc.Name() != "Getpid" && sc.Name() != "ReadFile" && sc.Name() != "Open") {
								continue
							}
							if pp == "runtime" && sc.Name() != "NumGoroutine" && sc.Name() != "NumCPU" {
								continue
							}
							findings = append(findings, structFinding{key, "call of " + nm + " at " + c.fset.Position(x.Pos()).String()})
						}
					}
				}
			}
		}
	}
	for _, fn := range fns {
		for _, f := range c.yamlOrderFindings(fn) {
			findings = append(findings, structFinding{c.fnKey(fn), f})
		}
	}
	if sortedRanges > 0 {
		notes = append(notes, fmt.Sprintf("%d range-over-map loops accepted by the collect-then-sort rule (the loop only appends {key,value} records to one slice, and the first later use of that slice sorts it by the key field with <; map keys are distinct, so the sorted slice is independent of the iteration order)", sortedRanges))
	}
	if dynCalls > 0 {
		notes = append(notes, fmt.Sprintf("%d calls of function values other than closure literals are not followed (their targets are checked when they are themselves reachable or listed as roots)", dynCalls))
	}
	return checked, findings, notes
}


// mapRangeSortedByKey decides the collect-then-sort rule for the `for k, v := range m` statement at pos (m a Go map):
//
//  1. the loop body is the single statement `X = append(X, T{..., F: k, ...})` (k the range key, X an identifier);
//  2. reading on from the loop in source order inside the enclosing function, and skipping `len(X)`, and plain aliasing
//     assignments `A = X` (A then counts as X), the first statement that mentions X is
//     `sort.SliceStable(X, func(i, j int) bool { return X[i].F < X[j].F })` (or sort.Slice).
//
// Map keys are pairwise distinct, so sorting by the key field with a strict order yields one slice whatever the
// iteration order was.  Anything else is refused with the reason.
func (c *Ctx) mapRangeSortedByKey(pos token.Pos) (bool, string) {
	var file *ast.File
	for _, p := range c.pkgs {
		for _, f := range p.Syntax {
			if f.Pos() <= pos && pos < f.End() {
				file = f
			}
		}
	}
	if file == nil {
		return false, "no syntax for the position"
	}
	var fd *ast.FuncDecl
	var rs *ast.RangeStmt
	ast.Inspect(file, func(n ast.Node) bool {
		switch x := n.(type) {
		case *ast.FuncDecl:
			if x.Pos() <= pos && pos < x.End() {
				fd = x
			}
		case *ast.RangeStmt:
			if x.Pos() <= pos && pos < x.End() && (x.For == pos || x.X.Pos() == pos || x.Pos() == pos) {
				rs = x
			}
		}
		return true
	})
	if rs == nil && fd != nil {
		// the SSA Range carries the position of the `for`; fall back to the innermost range statement that contains pos
		ast.Inspect(fd, func(n ast.Node) bool {
			if x, ok := n.(*ast.RangeStmt); ok && x.Pos() <= pos && pos < x.End() {
				rs = x
			}
			return true
		})
	}
	if fd == nil || rs == nil {
		return false, "range statement not found in the syntax"
	}
	kid, ok := rs.Key.(*ast.Ident)
	if !ok || kid.Name == "_" {
		return false, "the range key is not bound to a variable"
	}
	if len(rs.Body.List) != 1 {
		return false, "the loop body is not a single append statement"
	}
	as, ok := rs.Body.List[0].(*ast.AssignStmt)
	if !ok || len(as.Lhs) != 1 || len(as.Rhs) != 1 || as.Tok != token.ASSIGN {
		return false, "the loop body is not `X = append(X, T{...})`"
	}
	xid, ok := as.Lhs[0].(*ast.Ident)
	call, ok2 := as.Rhs[0].(*ast.CallExpr)
	if !ok || !ok2 || len(call.Args) != 2 || call.Ellipsis != token.NoPos {
		return false, "the loop body is not `X = append(X, T{...})`"
	}
	if f, ok := call.Fun.(*ast.Ident); !ok || f.Name != "append" {
		return false, "the loop body is not `X = append(X, T{...})`"
	}
	if a0, ok := call.Args[0].(*ast.Ident); !ok || a0.Name != xid.Name {
		return false, "append target differs from the assigned slice"
	}
	// variant: the keys themselves are collected (`names = append(names, name)`) and the first later use is sort.Strings(names)
	if kv, isIdent := call.Args[1].(*ast.Ident); isIdent && kv.Name == kid.Name {
		if vid, ok := rs.Value.(*ast.Ident); rs.Value != nil && (!ok || vid.Name != "_") {
			return false, "the loop also binds the map value"
		}
		state := 0 // 0 not seen, 1 sorted first, 2 used unsorted
		why := "the collected keys are never sorted"
		var visit func(list []ast.Stmt)
		mentionsX := func(n ast.Node) bool {
			found := false
			ast.Inspect(n, func(m ast.Node) bool {
				if id, ok := m.(*ast.Ident); ok && id.Name == xid.Name {
					found = true
				}
				return !found
			})
			return found
		}
		visit = func(list []ast.Stmt) {
			for _, st := range list {
				if state != 0 {
					return
				}
				if st.End() <= rs.End() {
					continue
				}
				if st.Pos() < rs.Pos() { // enclosing statement: descend
					switch x := st.(type) {
					case *ast.BlockStmt:
						visit(x.List)
					case *ast.IfStmt:
						visit(x.Body.List)
						if x.Else != nil {
							visit([]ast.Stmt{x.Else})
						}
					case *ast.ForStmt:
						visit(x.Body.List)
					case *ast.RangeStmt:
						visit(x.Body.List)
					default:
						state, why = 2, "the loop is nested in a statement the rule does not look into"
					}
					continue
				}
				if es, ok := st.(*ast.ExprStmt); ok {
					if ce, ok := es.X.(*ast.CallExpr); ok && len(ce.Args) == 1 && types.ExprString(ce.Fun) == "sort.Strings" && types.ExprString(ce.Args[0]) == xid.Name {
						state = 1
						return
					}
				}
				if mentionsX(st) {
					state, why = 2, "the collected keys are used at "+c.fset.Position(st.Pos()).String()+" before sort.Strings"
					return
				}
			}
		}
		visit(fd.Body.List)
		if state == 1 {
			return true, ""
		}
		return false, why
	}
	lit, ok := call.Args[1].(*ast.CompositeLit)
	if !ok {
		return false, "the appended value is not a composite literal"
	}
	keyField := ""
	for _, e := range lit.Elts {
		kv, ok := e.(*ast.KeyValueExpr)
		if !ok {
			return false, "the appended literal has positional fields"
		}
		fid, _ := kv.Key.(*ast.Ident)
		if v, ok := kv.Value.(*ast.Ident); ok && fid != nil && v.Name == kid.Name {
			keyField = fid.Name
		}
	}
	if keyField == "" {
		return false, "the appended record does not store the map key in a field"
	}
	return c.sortedBeforeUse(fd, rs, xid.Name, keyField)
}

// sortedBeforeUse: after the statement `loop` (inside fd), on every path, the first use of the slice xName (or of a plain
// alias of it; len(x) in a condition does not count) is a sort.SliceStable / sort.Slice call ordering it by keyField.
func (c *Ctx) sortedBeforeUse(fd *ast.FuncDecl, loop ast.Stmt, xName, keyField string) (bool, string) {
	// statements after the loop in source order
	names := map[string]bool{xName: true}
	exprStr := func(e ast.Expr) string { return types.ExprString(e) }
	mentions := func(n ast.Node) bool {
		found := false
		ast.Inspect(n, func(m ast.Node) bool {
			if e, ok := m.(ast.Expr); ok && names[exprStr(e)] {
				found = true
			}
			return !found
		})
		return found
	}
	// scan returns 0 (slice not mentioned), 1 (sorted by the key before any other use on every path through the list),
	// 2 (used before being sorted; why is set)
	why := "the collected slice is never sorted"
	var scan func(list []ast.Stmt) int
	var one func(st ast.Stmt) int
	isSort := func(st ast.Stmt) int {
		x, ok := st.(*ast.ExprStmt)
		if !ok {
			return 0
		}
		ce, ok := x.X.(*ast.CallExpr)
		if !ok || len(ce.Args) != 2 || !names[exprStr(ce.Args[0])] {
			return 0
		}
		fn := exprStr(ce.Fun)
		if fn != "sort.SliceStable" && fn != "sort.Slice" {
			return 0
		}
		if fl, ok := ce.Args[1].(*ast.FuncLit); ok && len(fl.Body.List) == 1 && fl.Type.Params != nil {
			var ps []string
			for _, f := range fl.Type.Params.List {
				for _, n := range f.Names {
					ps = append(ps, n.Name)
				}
			}
			if ret, ok := fl.Body.List[0].(*ast.ReturnStmt); ok && len(ret.Results) == 1 && len(ps) == 2 {
				if be, ok := ret.Results[0].(*ast.BinaryExpr); ok && (be.Op == token.LSS || be.Op == token.LEQ) {
					want := func(p string) string { return exprStr(ce.Args[0]) + "[" + p + "]." + keyField }
					if exprStr(be.X) == want(ps[0]) && exprStr(be.Y) == want(ps[1]) {
						return 1
					}
				}
			}
		}
		why = "the sort at " + c.fset.Position(st.Pos()).String() + " does not order by the key field " + keyField + " with <"
		return 2
	}
	one = func(st ast.Stmt) int {
		if st.End() <= loop.End() {
			return 0 // before the loop, or the loop itself
		}
		switch x := st.(type) {
		case *ast.BlockStmt:
			return scan(x.List)
		case *ast.IfStmt:
			enclosing := st.Pos() < loop.Pos()
			if !enclosing {
				condOK := true
				ast.Inspect(x.Cond, func(m ast.Node) bool {
					if ce, ok := m.(*ast.CallExpr); ok {
						if f, ok := ce.Fun.(*ast.Ident); ok && f.Name == "len" {
							return false
						}
					}
					if e, ok := m.(ast.Expr); ok && names[exprStr(e)] {
						condOK = false
					}
					return true
				})
				if !condOK || (x.Init != nil && mentions(x.Init)) {
					why = "the collected slice is read at " + c.fset.Position(st.Pos()).String() + " before it is sorted"
					return 2
				}
			}
			a, b := scan(x.Body.List), 0
			if x.Else != nil {
				b = one(x.Else)
			}
			if enclosing {
				// only the branch that contains the loop continues
				if x.Body.Pos() <= loop.Pos() && loop.End() <= x.Body.End() {
					return a
				}
				return b
			}
			if a == 2 || b == 2 {
				return 2
			}
			if a == 1 && b == 1 {
				return 1
			}
			if a == 1 || b == 1 {
				return 3 // sorted on one branch, untouched on the other: later uses are refused below
			}
			return 0
		case *ast.AssignStmt:
			if len(x.Lhs) == 1 && len(x.Rhs) == 1 && names[exprStr(x.Rhs[0])] && (x.Tok == token.ASSIGN || x.Tok == token.DEFINE) {
				names[exprStr(x.Lhs[0])] = true
				return 0
			}
		}
		if r := isSort(st); r != 0 {
			return r
		}
		if mentions(st) {
			why = "the collected slice is used at " + c.fset.Position(st.Pos()).String() + " before it is sorted by " + keyField
			return 2
		}
		return 0
	}
	scan = func(list []ast.Stmt) int {
		partly := false
		for _, st := range list {
			switch one(st) {
			case 1:
				return 1
			case 2:
				return 2
			case 3:
				partly = true
			}
		}
		if partly {
			return 3
		}
		return 0
	}
	switch scan(fd.Body.List) {
	case 1, 3:
		return true, ""
	}
	return false, why
}


// verifyOptsSetTime: the VerifyOptions argument of (*x509.Certificate).Verify is a local composite whose CurrentTime
// field is assigned in the calling function.
func verifyOptsSetTime(com *ssa.CallCommon) bool {
	if len(com.Args) < 2 {
		return false
	}
	ld, ok := com.Args[1].(*ssa.UnOp)
	if !ok {
		return false
	}
	al, ok := ld.X.(*ssa.Alloc)
	if !ok || al.Referrers() == nil {
		return false
	}
	st, ok := al.Type().(*types.Pointer).Elem().Underlying().(*types.Struct)
	if !ok {
		return false
	}
	idx := -1
	for i := 0; i < st.NumFields(); i++ {
		if st.Field(i).Name() == "CurrentTime" {
			idx = i
		}
	}
	for _, r := range *al.Referrers() {
		if fa, ok := r.(*ssa.FieldAddr); ok && fa.Field == idx && fa.Referrers() != nil {
			for _, rr := range *fa.Referrers() {
				if _, ok := rr.(*ssa.Store); ok {
					return true
				}
			}
		}
	}
	return false
}


// localMap: the map operand was made in the same function (possibly through a phi / local variable).
func localMap(v ssa.Value) bool {
	seen := map[ssa.Value]bool{}
	var rec func(v ssa.Value) bool
	rec = func(v ssa.Value) bool {
		if seen[v] {
			return true
		}
		seen[v] = true
		switch x := v.(type) {
		case *ssa.MakeMap:
			return true
		case *ssa.Phi:
			for _, e := range x.Edges {
				if !rec(e) {
					return false
				}
			}
			return true
		case *ssa.UnOp:
			// load of a local variable: every value stored into it must be local
			al, ok := x.X.(*ssa.Alloc)
			if !ok || al.Referrers() == nil {
				return false
			}
			any := false
			for _, r := range *al.Referrers() {
				if st, ok := r.(*ssa.Store); ok && st.Addr == al {
					any = true
					if !rec(st.Val) {
						return false
					}
				}
			}
			return any
		case *ssa.ChangeType:
			return rec(x.X)
		case *ssa.Call:
			// a map returned by a function of this repository that builds it (labels(), …): accepted when the callee
			// itself only returns maps it made
			if sc := x.Common().StaticCallee(); sc != nil && len(sc.Blocks) > 0 {
				for _, b := range sc.Blocks {
					for _, ins := range b.Instrs {
						if ret, ok := ins.(*ssa.Return); ok {
							for _, rv := range ret.Results {
								if _, isMap := rv.Type().Underlying().(*types.Map); isMap && !localMap(rv) {
									return false
								}
							}
						}
					}
				}
				return true
			}
			return false
		}
		return false
	}
	return rec(v)
}

// yamlOrderFindings: a loop that walks the Content of a yaml.Node sees the document's key order; if it collects records
// into a slice, the slice must be sorted by the field that holds the key before any other use (same rule as for maps).
func (c *Ctx) yamlOrderFindings(fn *ssa.Function) []string {
	fd, ok := fn.Syntax().(*ast.FuncDecl)
	if !ok || fd.Body == nil {
		return nil
	}
	var info *types.Info
	for _, p := range c.pkgs {
		if fn.Pkg != nil && p.Types == fn.Pkg.Pkg {
			info = p.TypesInfo
		}
	}
	if info == nil {
		return nil
	}
	isNodeContent := func(e ast.Expr) bool {
		se, ok := e.(*ast.SelectorExpr)
		if !ok || se.Sel.Name != "Content" {
			return false
		}
		t := info.TypeOf(se.X)
		return t != nil && strings.HasSuffix(strings.TrimPrefix(t.String(), "*"), "yaml.v3.Node")
	}
	mentionsContent := func(n ast.Node) bool {
		found := false
		ast.Inspect(n, func(m ast.Node) bool {
			if e, ok := m.(ast.Expr); ok && isNodeContent(e) {
				found = true
			}
			return !found
		})
		return found
	}
	var out []string
	ast.Inspect(fd.Body, func(n ast.Node) bool {
		var body *ast.BlockStmt
		var loop ast.Stmt
		switch x := n.(type) {
		case *ast.ForStmt:
			if x.Cond != nil && mentionsContent(x.Cond) {
				body, loop = x.Body, x
			}
		case *ast.RangeStmt:
			if isNodeContent(x.X) {
				body, loop = x.Body, x
			}
		}
		if body == nil {
			return true
		}
		// appends of composite literals one of whose fields is taken from the node content
		ast.Inspect(body, func(m ast.Node) bool {
			as, ok := m.(*ast.AssignStmt)
			if !ok || len(as.Lhs) != 1 || len(as.Rhs) != 1 {
				return true
			}
			xid, ok := as.Lhs[0].(*ast.Ident)
			call, ok2 := as.Rhs[0].(*ast.CallExpr)
			if !ok || !ok2 || len(call.Args) != 2 {
				return true
			}
			if f, ok := call.Fun.(*ast.Ident); !ok || f.Name != "append" {
				return true
			}
			lit, ok := call.Args[1].(*ast.CompositeLit)
			if !ok {
				return true
			}
			keyField := ""
			for _, e := range lit.Elts {
				if kv, ok := e.(*ast.KeyValueExpr); ok && mentionsContent(kv.Value) {
					if id, ok := kv.Key.(*ast.Ident); ok && keyField == "" {
						keyField = id.Name
					}
				}
			}
			if keyField == "" {
				return true
			}
			if ok, why := c.sortedBeforeUse(fd, loop, xid.Name, keyField); !ok {
				out = append(out, "records collected in YAML document order at "+c.fset.Position(loop.Pos()).String()+": "+why)
			}
			return true
		})
		return false
	})
	return out
}


// keeperOrGlobalState: the value is reached from a package variable or from the method's receiver (a field of a keeper /
// server object, however deep): state that lives as long as the process.
func keeperOrGlobalState(fn *ssa.Function, v ssa.Value) bool {
	var recv *ssa.Parameter
	if fn.Signature.Recv() != nil && len(fn.Params) > 0 {
		recv = fn.Params[0]
	}
	seen := map[ssa.Value]bool{}
	var rec func(v ssa.Value) bool
	rec = func(v ssa.Value) bool {
		if v == nil || seen[v] {
			return false
		}
		seen[v] = true
		switch x := v.(type) {
		case *ssa.Global:
			return true
		case *ssa.Parameter:
			return recv != nil && x == recv
		case *ssa.FreeVar:
			return false
		case *ssa.UnOp:
			return rec(x.X)
		case *ssa.FieldAddr:
			return rec(x.X)
		case *ssa.Field:
			return rec(x.X)
		case *ssa.IndexAddr:
			return rec(x.X)
		case *ssa.ChangeType:
			return rec(x.X)
		case *ssa.Alloc:
			if x.Referrers() == nil {
				return false
			}
			for _, r := range *x.Referrers() {
				if st, ok := r.(*ssa.Store); ok && st.Addr == x && rec(st.Val) {
					return true
				}
			}
			return false
		case *ssa.Phi:
			for _, e := range x.Edges {
				if rec(e) {
					return true
				}
			}
		}
		return false
	}
	return rec(v)
}

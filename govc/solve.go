package main

// SMT portfolio: every obligation is written once and raced on z3 (5.1.0),
// z3 (4.8.12) and cvc5; first definitive answer wins.

import (
	"strconv"
	"sort"
	"regexp"
	"bytes"
	"context"
	"crypto/sha256"
	"fmt"
	"os"
	"os/exec"
	"path/filepath"
	"strings"
	"sync"
	"time"
)

type solverSpec struct {
	name string
	argv func(file string, timeoutS int) []string
}

var solvers = []solverSpec{
	{"z3-new-5.1.0", func(f string, t int) []string { return []string{"z3-new", fmt.Sprintf("-T:%d", t), f} }},
	{"z3-4.8.12", func(f string, t int) []string { return []string{"/usr/bin/z3", fmt.Sprintf("-T:%d", t), f} }},
	{"cvc5-1.0.3", func(f string, t int) []string {
		return []string{"cvc5", fmt.Sprintf("--tlimit=%d", t*1000), "--strings-exp", "--produce-models", f}
	}},
}

// retrySolvers: the portfolio plus seeded variants of the two z3 binaries
var retrySolvers = append(append([]solverSpec{}, solvers...),
	solverSpec{"z3-new-5.1.0/seed7", func(f string, t int) []string {
		return []string{"z3-new", "smt.random_seed=7", "sat.random_seed=7", fmt.Sprintf("-T:%d", t), f}
	}},
	solverSpec{"z3-new-5.1.0/seed42", func(f string, t int) []string {
		return []string{"z3-new", "smt.random_seed=42", "sat.random_seed=42", fmt.Sprintf("-T:%d", t), f}
	}},
	solverSpec{"z3-4.8.12/seed7", func(f string, t int) []string {
		return []string{"/usr/bin/z3", "smt.random_seed=7", fmt.Sprintf("-T:%d", t), f}
	}},
)

type solveResult struct {
	status  string // unsat sat unknown timeout error
	backend string
	ms      int64
	output  string
	all     map[string]string
}

func runSolver(ctx context.Context, sp solverSpec, file string, timeoutS int) (string, string) {
	argv := sp.argv(file, timeoutS)
	cmd := exec.CommandContext(ctx, argv[0], argv[1:]...)
	var out bytes.Buffer
	cmd.Stdout = &out
	cmd.Stderr = &out
	cmd.Run()
	txt := out.String()
	first := ""
	for _, ln := range strings.Split(txt, "\n") {
		ln = strings.TrimSpace(ln)
		if ln == "" || strings.HasPrefix(ln, "WARNING") {
			continue
		}
		first = ln
		break
	}
	switch first {
	case "unsat", "sat", "unknown":
		return first, txt
	case "timeout":
		return "timeout", txt
	}
	if ctx.Err() != nil {
		return "killed", txt
	}
	if strings.Contains(txt, "timeout") || strings.Contains(txt, "interrupted") {
		return "timeout", txt
	}
	return "error", txt
}

// solve races the portfolio.  wantAll>1 asks for that many independent unsat answers (thorough tier).
func solve(file string, timeoutS int, wantUnsat int) solveResult {
	return solveWith(file, timeoutS, wantUnsat, solvers)
}

func solveWith(file string, timeoutS int, wantUnsat int, solvers []solverSpec) solveResult {
	ctx, cancel := context.WithCancel(context.Background())
	defer cancel()
	type ans struct {
		name, status, out string
		ms              int64
	}
	ch := make(chan ans, len(solvers))
	t0 := time.Now()
	for _, sp := range solvers {
		sp := sp
		go func() {
			st, out := runSolver(ctx, sp, file, timeoutS)
			ch <- ans{sp.name, st, out, time.Since(t0).Milliseconds()}
		}()
	}
	res := solveResult{status: "unknown", all: map[string]string{}}
	unsats := 0
	for i := 0; i < len(solvers); i++ {
		a := <-ch
		res.all[a.name] = a.status
		switch a.status {
		case "unsat":
			unsats++
			if res.backend == "" || res.status != "unsat" {
				res.status, res.backend, res.ms, res.output = "unsat", a.name, a.ms, a.out
			} else {
				res.backend += "+" + a.name
			}
			if unsats >= wantUnsat {
				cancel()
				return res
			}
		case "sat":
			if res.status != "unsat" {
				res.status, res.backend, res.ms, res.output = "sat", a.name, a.ms, a.out
				cancel()
				return res
			}
		case "timeout":
			if res.status == "unknown" {
				res.status = "timeout"
				res.output = a.out
			}
		case "error":
			if res.output == "" {
				res.output = a.out
			}
		}
	}
	if res.status != "unsat" && res.status != "sat" {
		res.ms = time.Since(t0).Milliseconds()
	}
	return res
}

func writeQuery(workDir string, pre *Prelude, o *Obligation) string {
	prelude, post := pre.For(o.Query, o.NoLemmas, o.Uses, o.Native)
	var b strings.Builder
	b.WriteString("; obligation " + o.Name + "\n; " + o.Where + "\n; " + o.Src + "\n")
	b.WriteString("(set-option :produce-models true)\n(set-logic ALL)\n")
	b.WriteString(prelude)
	// heap-lemma instances go after the declarations and before the final (negated goal) assertion
	q := o.Query
	if k := strings.LastIndex(q, "(assert (not "); k >= 0 && post != "" {
		q = q[:k] + post + q[k:]
	} else {
		q += post
	}
	b.WriteString(q)
	b.WriteString("(check-sat)\n")
	if len(o.Inputs) > 0 {
		var ts []string
		for _, in := range o.Inputs {
			ts = append(ts, in.Term)
		}
		b.WriteString("(get-value (" + strings.Join(ts, " ") + "))\n")
	}
	h := sha256.Sum256([]byte(o.Name))
	file := filepath.Join(workDir, fmt.Sprintf("%x.smt2", h[:8]))
	os.WriteFile(file, []byte(pruneUnusedConsts(b.String())), 0o644)
	return file
}

// sanityAssumptions: the query without its negated goal must not be `unsat`
// for z3-new (guards against a wrong unsat derived from the assumptions alone).
func sanityAssumptions(file string) bool {
	data, err := os.ReadFile(file)
	if err != nil {
		return true
	}
	txt := string(data)
	i := strings.LastIndex(txt, "(assert (not ")
	j := strings.LastIndex(txt, "(check-sat)")
	if i < 0 || j < i {
		return true
	}
	f2 := file + ".sanity.smt2"
	os.WriteFile(f2, []byte(txt[:i]+"(check-sat)\n"), 0o644)
	defer os.Remove(f2)
	ctx, cancel := context.WithTimeout(context.Background(), 6*time.Second)
	defer cancel()
	st, _ := runSolver(ctx, solvers[0], f2, 4)
	return st != "unsat"
}

var sanityMu sync.Mutex
var sanityCache = map[string]bool{}
var sanityNs, writeNs, solveNs int64

func sanitySeconds() float64 {
	sanityMu.Lock()
	defer sanityMu.Unlock()
	fmt.Fprintf(os.Stderr, "timing: writeQuery %.1fs solve %.1fs (worker seconds)\n", float64(writeNs)/1e9, float64(solveNs)/1e9)
	return float64(sanityNs) / 1e9
}

// fnSanity: once per function, z3-new must not refute the definitions and
// axioms of the function's largest query on their own (no path condition, no goal).
var sanityOnce = map[string]*sync.Once{}

func fnSanity(fn, workDir string, pre *Prelude, obls []*Obligation) bool {
	sanityMu.Lock()
	once := sanityOnce[fn]
	if once == nil {
		once = &sync.Once{}
		sanityOnce[fn] = once
	}
	sanityMu.Unlock()
	once.Do(func() { fnSanityCompute(fn, workDir, pre, obls) })
	sanityMu.Lock()
	defer sanityMu.Unlock()
	return sanityCache[fn]
}

func fnSanityCompute(fn, workDir string, pre *Prelude, obls []*Obligation) bool {
	var big *Obligation
	for _, o := range obls {
		if o.Fn == fn && (big == nil || len(o.Query) > len(big.Query)) {
			big = o
		}
	}
	ok := true
	t0 := time.Now()
	defer func() {
		sanityMu.Lock()
		sanityNs += int64(time.Since(t0))
		sanityMu.Unlock()
	}()
	if big != nil {
		prelude, post := pre.For(big.Query, big.NoLemmas, big.Uses, big.Native)
		q := big.Query
		if k := strings.LastIndex(q, "(assert (not "); k >= 0 {
			q = q[:k]
		}
		// drop the path-condition assertion (last plain "(assert pc...)" line)
		lines := strings.Split(strings.TrimRight(q, "\n"), "\n")
		if n := len(lines); n > 0 && strings.HasPrefix(lines[n-1], "(assert ") && !strings.Contains(lines[n-1], " ") {
			lines = lines[:n-1]
		}
		txt := "(set-logic ALL)\n" + prelude + strings.Join(lines, "\n") + "\n" + post + "(check-sat)\n"
		f2 := filepath.Join(workDir, "sanity-"+fmt.Sprintf("%x", sha256.Sum256([]byte(fn)))[:12]+".smt2")
		os.WriteFile(f2, []byte(pruneUnusedConsts(txt)), 0o644)
		ctx, cancel := context.WithTimeout(context.Background(), 4*time.Second)
		st, _ := runSolver(ctx, solvers[0], f2, 2)
		cancel()
		ok = st != "unsat"
	}
	sanityMu.Lock()
	sanityCache[fn] = ok
	sanityMu.Unlock()
	return ok
}

func dischargeAll(obls []*Obligation, prelude *Prelude, workDir string, timeoutS, workers, wantUnsat int) {
	os.MkdirAll(workDir, 0o755)
	var wg sync.WaitGroup
	sem := make(chan struct{}, workers)
	// the per-function sanity checks are started up front, off the critical path
	{
		seen := map[string]bool{}
		ssem := make(chan struct{}, 6)
		for _, o := range obls {
			if o.Kind == "cover" || seen[o.Fn] {
				continue
			}
			seen[o.Fn] = true
			fn := o.Fn
			go func() {
				ssem <- struct{}{}
				defer func() { <-ssem }()
				fnSanity(fn, workDir, prelude, obls)
			}()
		}
	}
	for _, o := range obls {
		o := o
		wg.Add(1)
		sem <- struct{}{}
		go func() {
			defer wg.Done()
			defer func() { <-sem }()
			if o.Result != "" {
				return
			}
			tw := time.Now()
			file := writeQuery(workDir, prelude, o)
			o.File = file
			sanityMu.Lock()
			writeNs += int64(time.Since(tw))
			sanityMu.Unlock()
			tsv := time.Now()
			r := solve(file, timeoutS, wantUnsat)
			sanityMu.Lock()
			solveNs += int64(time.Since(tsv))
			sanityMu.Unlock()
			if r.status == "unsat" && r.backend == solvers[0].name && o.Kind != "cover" {
				if !fnSanity(o.Fn, workDir, prelude, obls) {
					// z3-new refutes the assumptions themselves: do not trust it for this query
					r2 := solveWith(file, timeoutS, wantUnsat, solvers[1:])
					r = r2
					r.all[solvers[0].name] = "unsat(rejected: assumptions alone refuted)"
				}
			}
			o.Result, o.Backend, o.Ms = r.status, r.backend, r.ms
			o.Model = r.output
			o.All = r.all
		}()
	}
	wg.Wait()
	// second chance: an obligation that only timed out (no solver said sat) is retried once, alone on the machine's
	// spare capacity, with four times the budget - a loaded machine must not turn a slow proof into an alarm
	var retry []*Obligation
	for _, o := range obls {
		if o.File != "" && (o.Result == "timeout" || o.Result == "unknown") && o.Kind != "cover" {
			retry = append(retry, o)
		}
	}
	if len(retry) == 0 || len(retry) > 24 || os.Getenv("VERIF_NORETRY") != "" {
		return
	}
	sem2 := make(chan struct{}, 4)
	for _, o := range retry {
		o := o
		wg.Add(1)
		sem2 <- struct{}{}
		go func() {
			defer wg.Done()
			defer func() { <-sem2 }()
			// the second chance also varies z3's random seed: a borderline obligation that one run of a solver misses
			// is usually found under another seed (the same effect as an incidental renaming in the query)
			r := solveWith(o.File, timeoutS*4, wantUnsat, retrySolvers)
			if r.status == "unsat" && strings.HasPrefix(r.backend, "z3-new") && !fnSanity(o.Fn, workDir, prelude, obls) {
				r = solveWith(o.File, timeoutS*4, wantUnsat, solvers[1:])
			}
			if r.status == "unsat" || r.status == "sat" {
				o.Result, o.Backend, o.Ms = r.status, r.backend+"(retry)", o.Ms+r.ms
				o.Model = r.output
				o.All = r.all
			}
		}()
	}
	wg.Wait()
}

var (
	reStrTok  = regexp.MustCompile(`str![0-9]+`)
	reZarrTok = regexp.MustCompile(`zarr![A-Za-z0-9_.!]+`)
	reStrDecl = regexp.MustCompile(`^\((?:declare|define)-fun (str![0-9]+) \(\) Str`)
	reStrLen  = regexp.MustCompile(`^\(assert \(= \(slen (str![0-9]+)\) [0-9]+\)\)$`)
	reStrCat  = regexp.MustCompile(`^\(assert \(forall \(\(x Str\)\) \(! \(= \(scat (?:x )?(str![0-9]+)`)
	reZDecl   = regexp.MustCompile(`^\(declare-fun (zarr![A-Za-z0-9_.!]+) \(\)`)
	reZAx     = regexp.MustCompile(`^\(assert \(forall \(\(i Int\)\) \(! \(= \(select (zarr![A-Za-z0-9_.!]+) i\)`)
)

// pruneUnusedConsts drops the declarations (and defining axioms) of string literals and zero arrays that the query
// never mentions.  The literal table is shared by all functions of a run, so without this the text of a query - and with
// it the solvers' behaviour on borderline obligations - depended on which other functions were generated before it.
func pruneUnusedConsts(text string) string {
	lines := strings.Split(text, "\n")
	owner := make([]string, len(lines)) // constant a line belongs to ("" = ordinary line)
	distinctLine := -1
	for i, l := range lines {
		switch {
		case strings.HasPrefix(l, "(assert (distinct str!"):
			distinctLine = i
			owner[i] = "#distinct"
		case reStrDecl.MatchString(l):
			owner[i] = reStrDecl.FindStringSubmatch(l)[1]
		case reStrLen.MatchString(l):
			owner[i] = reStrLen.FindStringSubmatch(l)[1]
		case reStrCat.MatchString(l):
			owner[i] = reStrCat.FindStringSubmatch(l)[1]
		case reZDecl.MatchString(l):
			owner[i] = reZDecl.FindStringSubmatch(l)[1]
		case reZAx.MatchString(l):
			owner[i] = reZAx.FindStringSubmatch(l)[1]
		}
	}
	used := map[string]bool{}
	// zero-array axioms mention string literals in their element values: iterate to a fixpoint
	for changed := true; changed; {
		changed = false
		for i, l := range lines {
			if owner[i] != "" && !(used[owner[i]] && (reZAx.MatchString(l))) {
				continue
			}
			for _, t := range reStrTok.FindAllString(l, -1) {
				if !used[t] {
					used[t], changed = true, true
				}
			}
			for _, t := range reZarrTok.FindAllString(l, -1) {
				if !used[t] {
					used[t], changed = true, true
				}
			}
		}
	}
	var out []string
	for i, l := range lines {
		if owner[i] == "" || (owner[i] != "#distinct" && used[owner[i]]) {
			out = append(out, l)
			continue
		}
		if i == distinctLine {
			var ks []string
			for _, t := range reStrTok.FindAllString(l, -1) {
				if used[t] {
					ks = append(ks, t)
				}
			}
			if len(ks) > 1 {
				out = append(out, "(assert (distinct "+strings.Join(ks, " ")+"))")
			}
		}
	}
	return renumberStrings(strings.Join(out, "\n"))
}

// renumberStrings renames the remaining string-literal constants by the rank of their literal (taken from the
// declaration's comment / definition), so that the text does not depend on the order in which literals were first met.
func renumberStrings(text string) string {
	lines := strings.Split(text, "\n")
	lit := map[string]string{}
	for _, l := range lines {
		if m := reStrDecl.FindStringSubmatch(l); m != nil {
			if _, seen := lit[m[1]]; !seen {
				rest := l[len(m[0]):]
				lit[m[1]] = rest
			}
		}
	}
	if len(lit) == 0 {
		return text
	}
	toks := make([]string, 0, len(lit))
	for t := range lit {
		toks = append(toks, t)
	}
	sort.Slice(toks, func(i, j int) bool {
		if lit[toks[i]] != lit[toks[j]] {
			return lit[toks[i]] < lit[toks[j]]
		}
		return toks[i] < toks[j]
	})
	ren := map[string]string{}
	for i, t := range toks {
		ren[t] = fmt.Sprintf("str!c%d", i)
	}
	// declaration / length / scat lines are kept together per constant and emitted in rank order at the position of the
	// first of them
	var head, tail []string
	per := map[string][]string{}
	first := -1
	for i, l := range lines {
		owner := ""
		switch {
		case reStrDecl.MatchString(l):
			owner = reStrDecl.FindStringSubmatch(l)[1]
		case reStrLen.MatchString(l):
			owner = reStrLen.FindStringSubmatch(l)[1]
		case reStrCat.MatchString(l):
			owner = reStrCat.FindStringSubmatch(l)[1]
		}
		if owner != "" {
			if first < 0 {
				first = i
			}
			per[owner] = append(per[owner], l)
			continue
		}
		if first < 0 {
			head = append(head, l)
		} else {
			tail = append(tail, l)
		}
	}
	var mid []string
	for _, t := range toks {
		mid = append(mid, per[t]...)
	}
	all := strings.Join(append(append(head, mid...), tail...), "\n")
	all = reStrTok.ReplaceAllStringFunc(all, func(t string) string {
		if n, ok := ren[t]; ok {
			return n
		}
		return t
	})
	// the distinct line lists the constants in rank order
	return regexp.MustCompile(`(?m)^\(assert \(distinct (str!c[0-9]+ ?)+\)\)$`).ReplaceAllStringFunc(all, func(l string) string {
		ks := regexp.MustCompile(`str!c[0-9]+`).FindAllString(l, -1)
		sort.Slice(ks, func(i, j int) bool {
			a, _ := strconv.Atoi(ks[i][5:])
			b, _ := strconv.Atoi(ks[j][5:])
			return a < b
		})
		return "(assert (distinct " + strings.Join(ks, " ") + "))"
	})
}

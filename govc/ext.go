package main

// Maps, map iteration (demonic order), closures, defers, intrinsics.

import (
	"fmt"
	"go/types"
	"strings"

	"golang.org/x/tools/go/ssa"
)

// ---------- maps ----------
// A map value is a Ref m.  Its contents live in two cells: values at rsub(m,0)
// (sort (Array K V)) and domain at rsub(m,1) (sort (Array K Bool)).

type mapCells struct{ m *types.Map }

func (t *mapCells) Underlying() types.Type { return t }
func (t *mapCells) String() string         { return "contents of " + t.m.String() }

func (g *FnGen) mapSorts(m *types.Map) (vs, ds string) {
	k, v := g.c.reg.sortOf(m.Key()), g.c.reg.sortOf(m.Elem())
	return "(Array " + k + " " + v + ")", "(Array " + k + " Bool)"
}

func (g *FnGen) mapVals(s *State, m string, mt *types.Map) string {
	vs, _ := g.mapSorts(mt)
	return sel(g.heap(s, vs), refSub(m, "0"))
}
func (g *FnGen) mapDom(s *State, m string, mt *types.Map) string {
	_, ds := g.mapSorts(mt)
	return sel(g.heap(s, ds), refSub(m, "1"))
}

func (g *FnGen) setCell(s *State, sort, addr, v string) {
	h := g.heap(s, sort)
	nh := g.fresh(heapName(sort), "(Array Ref "+sort+")")
	g.defs = append(g.defs, eq(nh, store(h, addr, v)))
	s.heaps[sort] = nh
}

func (g *FnGen) execMakeMap(s *State, x *ssa.MakeMap) {
	mt := x.Type().Underlying().(*types.Map)
	_, ds := g.mapSorts(mt)
	r := g.allocRef(s, "map")
	g.setCell(s, ds, refSub(r, "1"), "((as const "+ds+") false)")
	g.vals[x] = &Val{term: r}
}

func (g *FnGen) execMapUpdate(s *State, x *ssa.MapUpdate) {
	mt := x.Map.Type().Underlying().(*types.Map)
	m, k, v := g.term(s, x.Map), g.term(s, x.Key), g.term(s, x.Value)
	g.panicIf(s, eq(m, nilRef), "nil-map-write")
	g.checkFrame(s, m, &mapCells{mt})
	vs, ds := g.mapSorts(mt)
	g.setCell(s, vs, refSub(m, "0"), store(g.mapVals(s, m, mt), k, v))
	g.setCell(s, ds, refSub(m, "1"), store(g.mapDom(s, m, mt), k, "true"))
}

func (g *FnGen) execMapDelete(s *State, com *ssa.CallCommon) {
	mt := com.Args[0].Type().Underlying().(*types.Map)
	m, k := g.term(s, com.Args[0]), g.term(s, com.Args[1])
	g.checkFrame(s, m, &mapCells{mt})
	_, ds := g.mapSorts(mt)
	g.setCell(s, ds, refSub(m, "1"), store(g.mapDom(s, m, mt), k, "false"))
}

func (g *FnGen) execLookup(s *State, x *ssa.Lookup) {
	mt, ok := x.X.Type().Underlying().(*types.Map)
	if !ok { // string index
		str, idx := g.term(s, x.X), g.term(s, x.Index)
		g.panicIf(s, or(app("<", idx, "0"), app(">=", idx, app("slen", str))), "index")
		g.c.needSidx = true
		g.vals[x] = &Val{term: app("sidx", str, idx)}
		return
	}
	m, k := g.term(s, x.X), g.term(s, x.Index)
	in := g.bind("mhas", "Bool", and(not(eq(m, nilRef)), sel(g.mapDom(s, m, mt), k)))
	val := g.bind("mval", g.c.reg.sortOf(mt.Elem()), ite(in, sel(g.mapVals(s, m, mt), k), g.c.reg.zero(mt.Elem())))
	if x.CommaOk {
		g.vals[x] = &Val{tuple: []string{val, in}}
	} else {
		g.vals[x] = &Val{term: val}
	}
}

func (g *FnGen) mapLenTerm(s *State, m string, mt *types.Map) string {
	_, ds := g.mapSorts(mt)
	g.c.cardSorts[ds] = true
	return app("card_"+sanitize(heapName(ds)), g.mapDom(s, m, mt))
}

func (e *Env) mapLookup(v, i TVal, u *types.Map) TVal {
	vs, _ := e.g.mapSorts(u)
	return TVal{term: sel(sel(e.heap(vs), refSub(v.term, "0")), i.term), ty: e.goTy(u.Elem())}
}

func (e *Env) mapHas(v, i TVal, u *types.Map) TVal {
	_, ds := e.g.mapSorts(u)
	return TVal{term: and(not(eq(v.term, nilRef)), sel(sel(e.heap(ds), refSub(v.term, "1")), i.term)), ty: boolTy()}
}

func (e *Env) mapLen(v TVal, u *types.Map) TVal {
	_, ds := e.g.mapSorts(u)
	e.c.cardSorts[ds] = true
	return TVal{term: app("card_"+sanitize(heapName(ds)), sel(e.heap(ds), refSub(v.term, "1"))), ty: intTy()}
}

// ---------- range over maps: demonic iteration order ----------

func (g *FnGen) execRange(s *State, x *ssa.Range) {
	mt, ok := x.X.Type().Underlying().(*types.Map)
	if !ok {
		panic(genErr("range over %s not supported", x.X.Type()))
	}
	_, ds := g.mapSorts(mt)
	s.iters[x] = "((as const " + ds + ") false)"
	s.lastRange = x
	g.vals[x] = &Val{term: g.term(s, x.X)}
}

func (g *FnGen) execNext(s *State, x *ssa.Next) {
	rg, ok := x.Iter.(*ssa.Range)
	if !ok {
		panic(genErr("next on non-range"))
	}
	mt := rg.X.Type().Underlying().(*types.Map)
	m := g.term(s, rg.X)
	_, ds := g.mapSorts(mt)
	visited, okv := s.iters[rg]
	if !okv {
		panic(genErr("map iterator state lost"))
	}
	dom := ite(eq(m, nilRef), "((as const "+ds+") false)", g.mapDom(s, m, mt))
	ks := g.c.reg.sortOf(mt.Key())
	k := g.fresh("rk", ks)
	okc := g.fresh("rok", "Bool")
	// ok  => k is an unvisited key of the map;  !ok => every key has been visited
	g.assume(s, and(implies(okc, and(sel(dom, k), not(sel(visited, k)))),
		implies(not(okc), fmt.Sprintf("(forall ((kk %s)) (! (=> (select %s kk) (select %s kk)) :pattern ((select %s kk))))", ks, dom, visited, dom))))
	g.assume(s, g.typeInv(s, k, mt.Key(), 0))
	nv := g.fresh("visited", ds)
	g.defs = append(g.defs, eq(nv, ite(okc, store(visited, k, "true"), visited)))
	s.iters[rg] = nv
	v := g.bind("rv", g.c.reg.sortOf(mt.Elem()), sel(g.mapVals(s, m, mt), k))
	g.vals[x] = &Val{tuple: []string{okc, k, v}}
}

// ---------- closures ----------

type capturedVar struct {
	addr string
	typ  types.Type // type of the captured variable
}

func (g *FnGen) execMakeClosure(s *State, x *ssa.MakeClosure) {
	fn := x.Fn.(*ssa.Function)
	env := g.allocRef(s, "closure")
	var caps []capturedVar
	for i, b := range x.Bindings {
		a := g.term(s, b)
		g.setCell(s, "Ref", refSub(env, intLit(int64(i))), a)
		caps = append(caps, capturedVar{a, b.Type().(*types.Pointer).Elem()})
	}
	g.closures[x] = caps
	g.vals[x] = &Val{term: app("mk-fn", intLit(int64(g.c.fnID(fn))), env)}
}

func (g *FnGen) closureTarget(mc *ssa.MakeClosure) (*FuncContract, *callTarget, map[string]capturedVar) {
	fn := mc.Fn.(*ssa.Function)
	key := g.c.fnKey(fn)
	fc := g.c.contracts[key]
	ct := &callTarget{fc: fc, key: key, sig: fn.Signature, fn: fn}
	for i := 0; i < fn.Signature.Params().Len(); i++ {
		n := fn.Signature.Params().At(i).Name()
		if n == "" || n == "_" {
			n = fmt.Sprintf("arg%d", i)
		}
		ct.names = append(ct.names, n)
	}
	caps := map[string]capturedVar{}
	cv, ok := g.closures[mc]
	if !ok {
		panic(genErr("closure %s used before creation", key))
	}
	for i, fv := range fn.FreeVars {
		caps[fv.Name()] = cv[i]
	}
	return fc, ct, caps
}

func (g *FnGen) execClosureCall(s *State, mc *ssa.MakeClosure, com *ssa.CallCommon, res ssa.Value) {
	fc, ct, caps := g.closureTarget(mc)
	if fc == nil {
		panic(genErr("%s: call of closure %s which has no contract", g.fn.Name(), ct.key))
	}
	var args []TVal
	for _, a := range com.Args {
		args = append(args, TVal{term: g.term(s, a), ty: Ty{sort: g.c.reg.sortOf(a.Type()), gt: a.Type()}})
	}
	ct.caps = caps
	g.applyContract(s, fc, ct, args, res, ct.sig.Results())
}

// ---------- defers ----------

type deferredCall struct {
	fc   *FuncContract
	ct   *callTarget
	args []TVal
}

func (g *FnGen) execDefer(s *State, x *ssa.Defer) {
	com := x.Common()
	var fc *FuncContract
	var ct *callTarget
	if mc, ok := com.Value.(*ssa.MakeClosure); ok && !com.IsInvoke() {
		var caps map[string]capturedVar
		fc, ct, caps = g.closureTarget(mc)
		ct.caps = caps
	} else {
		fc, ct = g.c.calleeContract(g, com)
	}
	if fc == nil {
		if g.c.isDropped(ct.key) {
			g.usedDropped[ct.key] = true
			return
		}
		panic(genErr("%s: defer of %s which has no contract", g.fn.Name(), ct.key))
	}
	if len(g.enclosingLoops()) > 0 {
		// a defer registered inside a loop runs at function exit; its effect is outside the model
		// (dropped and listed) unless the callee modifies modelled state
		if len(fc.Modifies) > 0 {
			panic(genErr("%s: defer of a state-changing call inside a loop is not supported", g.fn.Name()))
		}
		g.usedDropped["defer inside loop: "+ct.key+" (runs at exit; not modelled)"] = true
		return
	}
	var args []TVal
	if com.IsInvoke() {
		args = append(args, TVal{term: g.term(s, com.Value), ty: Ty{sort: "Iface", gt: com.Value.Type()}})
	}
	for _, a := range com.Args {
		args = append(args, TVal{term: g.term(s, a), ty: Ty{sort: g.c.reg.sortOf(a.Type()), gt: a.Type()}})
	}
	if fc.Extern || fc.Trusted {
		g.usedExtern[ct.key] = true
	}
	s.defers = append(s.defers, &deferredCall{fc, ct, args})
}

func (g *FnGen) execRunDefers(s *State) {
	for i := len(s.defers) - 1; i >= 0; i-- {
		d := s.defers[i]
		if s.dead {
			return
		}
		g.applyContract(s, d.fc, d.ct, d.args, nil, d.ct.sig.Results())
	}
	s.defers = nil
}

func (g *FnGen) execGo(s *State, x *ssa.Go) {
	com := x.Common()
	key := "?"
	if mc, ok := com.Value.(*ssa.MakeClosure); ok {
		key = g.c.fnKey(mc.Fn.(*ssa.Function))
	} else if fn := com.StaticCallee(); fn != nil {
		key = g.c.fnKey(fn)
	}
	if h := g.c.goHandler; h != nil && h(g, s, x, key) {
		return
	}
	// goroutine bodies are outside the sequential model: dropped and listed
	g.usedDropped["go "+key] = true
}

// ---------- intrinsics ----------

// codec: MustMarshalBinaryBare(o) = enc_T(*o), MustUnmarshalBinaryBare(bz, p): *p = dec_T(bz)
// with the single axiom dec_T(enc_T(v)) = v (A-CODEC).
func (g *FnGen) intrinsic(s *State, com *ssa.CallCommon, res ssa.Value) bool {
	if !com.IsInvoke() {
		return false
	}
	recv := com.Value.Type().String()
	if !strings.HasPrefix(recv, "github.com/cosmos/cosmos-sdk/codec.") {
		return false
	}
	switch com.Method.Name() {
	case "MustMarshalBinaryBare":
		pt := ifaceOperandType(com.Args[0])
		if pt == nil {
			panic(genErr("codec marshal of statically unknown type"))
		}
		et := pt.Underlying().(*types.Pointer).Elem()
		ptr := app("i-val", g.term(s, com.Args[0]))
		g.panicIf(s, eq(ptr, nilRef), "nil-deref")
		v := g.bind("encv", g.c.reg.sortOf(et), g.load(s, ptr, et))
		enc, _ := g.c.codecFuns(et)
		g.vals[res] = &Val{term: app(enc, v)}
		return true
	case "UnmarshalBinaryBare":
		// may fail; on success *ptr = dec_T(bz)
		pt := ifaceOperandType(com.Args[1])
		if pt == nil {
			panic(genErr("codec unmarshal into statically unknown type"))
		}
		et := pt.Underlying().(*types.Pointer).Elem()
		ptr := app("i-val", g.term(s, com.Args[1]))
		_, dec := g.c.codecFuns(et)
		g.checkFrame(s, ptr, et)
		errv := g.fresh("r_unmarshalErr", "Iface")
		cur := g.bind("curv", g.c.reg.sortOf(et), g.load(s, ptr, et))
		v := g.bind("decv", g.c.reg.sortOf(et), ite(eq(errv, "niliface"), app(dec, g.term(s, com.Args[0])), cur))
		g.assume(s, g.typeInv(s, v, et, 0))
		g.storeTo(s, ptr, et, v)
		g.vals[res] = &Val{term: errv}
		return true
	case "MustUnmarshalBinaryBare":
		pt := ifaceOperandType(com.Args[1])
		if pt == nil {
			panic(genErr("codec unmarshal into statically unknown type"))
		}
		et := pt.Underlying().(*types.Pointer).Elem()
		ptr := app("i-val", g.term(s, com.Args[1]))
		_, dec := g.c.codecFuns(et)
		g.checkFrame(s, ptr, et)
		v := g.bind("decv", g.c.reg.sortOf(et), app(dec, g.term(s, com.Args[0])))
		g.assume(s, g.typeInv(s, v, et, 0))
		g.storeTo(s, ptr, et, v)
		return true
	}
	return false
}

func ifaceOperandType(v ssa.Value) types.Type {
	for {
		switch x := v.(type) {
		case *ssa.MakeInterface:
			return x.X.Type()
		case *ssa.ChangeInterface:
			v = x.X
		default:
			return nil
		}
	}
}

func (c *Ctx) codecFuns(t types.Type) (string, string) {
	s := c.reg.sortOf(t)
	if _, ok := c.codecs[s]; !ok {
		c.codecs[s] = true
		c.assumptionsUsed["A-CODEC: MustUnmarshalBinaryBare(MustMarshalBinaryBare(v)) = v for "+t.String()] = true
	}
	return "enc_" + sanitize(s), "dec_" + sanitize(s)
}

// ---------- channels / select: see eventloop.go ----------

func (g *FnGen) execSelect(s *State, x *ssa.Select)     { g.selectImpl(s, x) }
func (g *FnGen) execSend(s *State, x *ssa.Send)         { g.sendImpl(s, x) }
func (g *FnGen) execMakeChan(s *State, x *ssa.MakeChan) { g.makeChanImpl(s, x) }
func (g *FnGen) execRecv(s *State, x *ssa.UnOp)         { g.recvImpl(s, x) }
func (g *FnGen) execChanClose(s *State, com *ssa.CallCommon) {
	g.closeImpl(s, com)
}

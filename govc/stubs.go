package main

import (
	"go/types"

	"golang.org/x/tools/go/ssa"
)

type deferredCall struct {
	com *ssa.CallCommon
	ins *ssa.Defer
}

func (g *FnGen) execDefer(s *State, x *ssa.Defer) {
	fc, ct := g.c.calleeContract(g, x.Common())
	if fc == nil && g.c.isDropped(ct.key) {
		g.usedDropped[ct.key] = true
		return
	}
	panic(genErr("%s: defer of %s not supported yet", g.fn.Name(), ct.key))
}
func (g *FnGen) execRunDefers(s *State) {}
func (g *FnGen) execGo(s *State, x *ssa.Go) { panic(genErr("go statement not supported yet")) }
func (g *FnGen) execMakeClosure(s *State, x *ssa.MakeClosure) {
	panic(genErr("closures not supported yet"))
}
func (g *FnGen) execClosureCall(s *State, mc *ssa.MakeClosure, com *ssa.CallCommon, res ssa.Value) {
	panic(genErr("closure call not supported yet"))
}
func (g *FnGen) execMakeMap(s *State, x *ssa.MakeMap)     { panic(genErr("maps not supported yet")) }
func (g *FnGen) execMapUpdate(s *State, x *ssa.MapUpdate) { panic(genErr("maps not supported yet")) }
func (g *FnGen) execLookup(s *State, x *ssa.Lookup)       { panic(genErr("maps not supported yet")) }
func (g *FnGen) execRange(s *State, x *ssa.Range)         { panic(genErr("range not supported yet")) }
func (g *FnGen) execNext(s *State, x *ssa.Next)           { panic(genErr("range not supported yet")) }
func (g *FnGen) execSelect(s *State, x *ssa.Select)       { panic(genErr("select not supported yet")) }
func (g *FnGen) execSend(s *State, x *ssa.Send)           { panic(genErr("send not supported yet")) }
func (g *FnGen) execMakeChan(s *State, x *ssa.MakeChan)   { panic(genErr("chan not supported yet")) }
func (g *FnGen) execRecv(s *State, x *ssa.UnOp)           { panic(genErr("recv not supported yet")) }
func (g *FnGen) execMapDelete(s *State, com *ssa.CallCommon) { panic(genErr("maps not supported yet")) }
func (g *FnGen) execChanClose(s *State, com *ssa.CallCommon) { panic(genErr("chan not supported yet")) }
func (g *FnGen) mapLenTerm(s *State, m string, t *types.Map) string { panic(genErr("maps not supported yet")) }
func (e *Env) mapLookup(v, i TVal, u *types.Map) TVal { panic(genErr("maps not supported yet")) }
func (e *Env) mapLen(v TVal, u *types.Map) TVal       { panic(genErr("maps not supported yet")) }

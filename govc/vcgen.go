package main

// Verification-condition generation over go/ssa (naive form).  One FnGen per
// function under contract.  Loops are cut at their invariants; the acyclic
// remainder is executed symbolically block by block in reverse post-order with
// ite-merging at joins; every assert becomes its own obligation (query).

import (
	"fmt"
	"go/constant"
	"go/token"
	"go/types"
	"sort"
	"strings"

	"golang.org/x/tools/go/ssa"
)

type Place struct {
	alloc *ssa.Alloc
	path  []pathEl
}
type pathEl struct {
	field int    // struct field index, or -1 for array index
	idx   string // array index term
	typ   types.Type
}

type Val struct {
	term  string
	place *Place
	tuple []string // for multi-value results
}

type State struct {
	pc     string
	locals map[*ssa.Alloc]string
	heaps  map[string]string
	ghosts map[string]string
	next   string
	names  map[string]*ssa.Alloc // most recent alloc per source name on this path
	dead   bool
	iters  map[*ssa.Range]string // visited sets of map iterators
	lastRange *ssa.Range
	defers []*deferredCall
	chans  *chanState
	gen    string // suffix of lazily declared heaps/ghosts: changes after a callback of unknown effect
}

func (s *State) clone() *State {
	n := &State{pc: s.pc, next: s.next, dead: s.dead, lastRange: s.lastRange, chans: s.chans.clone(), gen: s.gen,
		iters: make(map[*ssa.Range]string, len(s.iters)), defers: append([]*deferredCall{}, s.defers...),
		locals: make(map[*ssa.Alloc]string, len(s.locals)),
		heaps:  make(map[string]string, len(s.heaps)),
		ghosts: make(map[string]string, len(s.ghosts)),
		names:  make(map[string]*ssa.Alloc, len(s.names))}
	for k, v := range s.locals {
		n.locals[k] = v
	}
	for k, v := range s.heaps {
		n.heaps[k] = v
	}
	for k, v := range s.ghosts {
		n.ghosts[k] = v
	}
	for k, v := range s.names {
		n.names[k] = v
	}
	for k, v := range s.iters {
		n.iters[k] = v
	}
	return n
}

type Obligation struct {
	Name     string
	Fn       string
	Kind     string
	Src      string // contract text
	Where    string
	Query    string // full SMT-LIB text
	Result   string // unsat / sat / unknown / timeout
	Backend  string
	Ms       int64
	Model    string
	Property []string
	Inputs   []modelVar // for replay
	File     string
	All      map[string]string
	NoLemmas bool // lemma proofs must not assume the lemma table
	Uses     []string
	Native   bool // use the native SMT string theory
}

type modelVar struct {
	Name string
	Term string
	Go   string // Go type string
}

type FnGen struct {
	c      *Ctx
	fn     *ssa.Function
	fc     *FuncContract
	decls  []string
	defs   []string
	declOf map[string]string
	vals   map[ssa.Value]*Val
	obls   []*Obligation
	nfresh int
	entry  *State
	params map[string]TVal
	loops  map[*ssa.BasicBlock]*loopInfo
	retN   int
	reqPC  string // pc after assuming requires
	seqN   int
	usedDropped map[string]bool
	usedExtern  map[string]bool
	cover  []coverPoint
	curInstr ssa.Instruction
	curBlock *ssa.BasicBlock
	edges    map[edge]*State
	fnPatsDone bool
	fnPatsV    []*locPat
	frameN, callN int
	closures map[*ssa.MakeClosure][]capturedVar
	boundCallees map[string]bool
	selectN      int
	callOrd      map[ssa.Instruction]callOrdinal
	hookExtra    map[string]TVal
	iterOrd      map[ssa.Instruction]int
}

type callOrdinal struct {
	key string
	k   int
}

type coverPoint struct {
	name string
	pc   string
}

type loopInfo struct {
	header  *ssa.BasicBlock
	ordinal int
	blocks  map[*ssa.BasicBlock]bool
	lc      *LoopContract
	pats    []*locPat
	nextPre string
	entered bool
	rangeIdx *ssa.Alloc // the hidden index cell of a range-over-slice / counted loop
	ranged   ssa.Value  // the collection a range loop walks (evaluated once, before the loop)
	touched  []string   // references of address-taken locals the loop assigns (they may change without being named)
	pre      *State     // state on entry to the loop (for atloop(e))
}

func (g *FnGen) fresh(hint, sort string) string {
	g.nfresh++
	n := fmt.Sprintf("%s!%d", sanitize(hint), g.nfresh)
	g.declare(n, sort)
	return n
}

func (g *FnGen) declare(name, sort string) {
	if _, ok := g.declOf[name]; ok {
		return
	}
	g.declOf[name] = sort
	g.decls = append(g.decls, fmt.Sprintf("(declare-fun %s () %s)", name, sort))
}

func (g *FnGen) heap(s *State, sort string) string {
	if h, ok := s.heaps[sort]; ok {
		return h
	}
	if s.gen != "" {
		// first read of this heap after a callback of unknown effect: unconstrained
		n := heapName(sort) + "!0" + s.gen
		g.declare(n, "(Array Ref "+sort+")")
		g.c.reg.heapSorts[sort] = true
		return n
	}
	n := heapName(sort) + "!0"
	if _, done := g.declOf[n]; !done {
		g.declare(n, "(Array Ref "+sort+")")
		g.c.reg.heapSorts[sort] = true
		// well-formed initial heap: references held in pre-existing cells denote pre-existing objects
		var tgt string
		switch sort {
		case "Ref":
			tgt = "(select " + n + " r)"
		case "Slice":
			tgt = "(s-arr (select " + n + " r))"
		case "Iface":
			tgt = "(i-val (select " + n + " r))"
		case "Fn":
			tgt = "(fn-env (select " + n + " r))"
		}
		if tgt != "" {
			g.defs = append(g.defs, fmt.Sprintf("(forall ((r Ref)) (! (=> (< (rid r) next!0) (< (rid %s) next!0)) :pattern ((select %s r))))", tgt, n))
		}
	}
	return n
}

func (g *FnGen) ghost(s *State, name string) string {
	if t, ok := s.ghosts[name]; ok {
		return t
	}
	gd, ok := g.c.ghosts[name]
	if !ok {
		panic(genErr("unknown ghost %s", name))
	}
	n := "G_" + name + "!0" + s.gen
	g.declare(n, g.ghostSort(gd))
	return n
}

func (g *FnGen) ghostSort(gd GhostDecl) string {
	if gd.File != nil {
		saved := g.c.curFile
		g.c.curFile = gd.File
		defer func() { g.c.curFile = saved }()
		return g.c.specSort(gd.Sort, g.c.typesPkgs[gd.File.PkgPath]).sort
	}
	return g.c.specSort(gd.Sort, nil).sort
}

// ---------- memory access ----------

// primitive reports whether values of Go type t occupy one heap cell.
func (g *FnGen) primitive(t types.Type) bool {
	return g.c.reg.structOf(t) == nil && !isArray(t)
}

func isArray(t types.Type) bool {
	_, ok := t.Underlying().(*types.Array)
	return ok
}

// load gathers a value of type t stored at reference r.
func (g *FnGen) load(s *State, r string, t types.Type) string {
	reg := g.c.reg
	if si := reg.structOf(t); si != nil {
		vals := make([]string, len(si.fields))
		for i, f := range si.fields {
			vals[i] = g.load(s, refFld(r, i), f.typ)
		}
		return reg.mk(si, vals)
	}
	if a, ok := t.Underlying().(*types.Array); ok {
		// arrays in memory: element cells; gather only small constant arrays
		if a.Len() > 8 {
			panic(genErr("load of large array %s", t))
		}
		arr := reg.zero(t)
		for i := int64(0); i < a.Len(); i++ {
			arr = store(arr, intLit(i), g.load(s, refSub(r, intLit(i)), a.Elem()))
		}
		return arr
	}
	return sel(g.heap(s, reg.sortOf(t)), r)
}

// storeTo scatters v (of type t) into the cells below r.
func (g *FnGen) storeTo(s *State, r string, t types.Type, v string) {
	reg := g.c.reg
	if si := reg.structOf(t); si != nil {
		for i, f := range si.fields {
			g.storeTo(s, refFld(r, i), f.typ, app(f.acc, v))
		}
		return
	}
	if a, ok := t.Underlying().(*types.Array); ok {
		if a.Len() > 8 {
			panic(genErr("store of large array %s", t))
		}
		for i := int64(0); i < a.Len(); i++ {
			g.storeTo(s, refSub(r, intLit(i)), a.Elem(), sel(v, intLit(i)))
		}
		return
	}
	srt := reg.sortOf(t)
	h := g.heap(s, srt)
	nh := g.fresh(heapName(srt), "(Array Ref "+srt+")")
	g.defs = append(g.defs, eq(nh, store(h, r, v)))
	s.heaps[srt] = nh
}

// typeInv is the type invariant assumed for a value of Go type t.
func (g *FnGen) typeInv(s *State, v string, t types.Type, depth int) string {
	reg := g.c.reg
	if n, ok := t.(*types.Named); ok {
		if _, ok := reg.opaque[qualName(n)]; ok {
			return "true"
		}
	}
	if isByteSlice(t) {
		return "true"
	}
	switch u := t.Underlying().(type) {
	case *types.Basic:
		if u.Info()&types.IsInteger != 0 {
			lo, hi := intRange(u.Kind())
			return and(app("<=", lo, v), app("<=", v, hi))
		}
	case *types.Slice:
		base := and(app(">=", app("s-off", v), "0"), app(">=", app("s-len", v), "0"),
			app("<=", app("s-len", v), app("s-cap", v)), app("<", app("rid", app("s-arr", v)), s.next),
			implies(eq(app("s-arr", v), nilRef), eq(app("s-cap", v), "0")))
		// the elements are values of the element type (integer fields within their ranges)
		if depth == 0 && g.hasIntCells(u.Elem(), 0) {
			ev := g.load(s, app("elemref", v, "tj"), u.Elem())
			if inv := g.c.valueTypeInv(ev, u.Elem(), 1); inv != "true" {
				base = and(base, fmt.Sprintf("(forall ((tj Int)) (! (=> (and (<= 0 tj) (< tj (s-len %s))) %s) :pattern ((elemref %s tj))))", v, inv, v))
			}
		}
		return base
	case *types.Pointer, *types.Map, *types.Chan:
		return app("<", app("rid", v), s.next)
	case *types.Interface:
		return app("<", app("rid", app("i-val", v)), s.next)
	case *types.Struct:
		if si := reg.structOf(t); si != nil && depth < 4 {
			var cs []string
			for _, f := range si.fields {
				cs = append(cs, g.typeInv(s, app(f.acc, v), f.typ, depth+1))
			}
			return and(cs...)
		}
	}
	return "true"
}

// hasIntCells: does a value of type t contain integer cells (directly or in nested structs)?
func (g *FnGen) hasIntCells(t types.Type, depth int) bool {
	if depth > 3 {
		return false
	}
	if g.c.reg.sortOf(t) == "Int" {
		if b, ok := t.Underlying().(*types.Basic); ok && b.Info()&types.IsInteger != 0 {
			return true
		}
		return false
	}
	if si := g.c.reg.structOf(t); si != nil {
		for _, f := range si.fields {
			if g.hasIntCells(f.typ, depth+1) {
				return true
			}
		}
	}
	return false
}

func intRange(k types.BasicKind) (string, string) {
	switch k {
	case types.Int8:
		return "(- 128)", "127"
	case types.Int16:
		return "(- 32768)", "32767"
	case types.Int32:
		return "(- 2147483648)", "2147483647"
	case types.Uint8:
		return "0", "255"
	case types.Uint16:
		return "0", "65535"
	case types.Uint32:
		return "0", "4294967295"
	case types.Uint, types.Uint64, types.Uintptr:
		return "0", "18446744073709551615"
	}
	return "(- 9223372036854775808)", "9223372036854775807"
}

// ---------- places (addresses of non-escaping locals) ----------

func (g *FnGen) placeType(p *Place) types.Type {
	if len(p.path) == 0 {
		return p.alloc.Type().(*types.Pointer).Elem()
	}
	return p.path[len(p.path)-1].typ
}

func (g *FnGen) readPlace(s *State, p *Place) string {
	t, ok := s.locals[p.alloc]
	if !ok {
		panic(genErr("read of local %s before allocation", p.alloc.Name()))
	}
	cur := p.alloc.Type().(*types.Pointer).Elem()
	for _, e := range p.path {
		if e.field >= 0 {
			si := g.c.reg.structOf(cur)
			if si == nil {
				panic(genErr("field access into opaque/non-struct local %s", cur))
			}
			t = app(si.fields[e.field].acc, t)
		} else {
			t = sel(t, e.idx)
		}
		cur = e.typ
	}
	return t
}

func (g *FnGen) writePlace(s *State, p *Place, v string) {
	root := s.locals[p.alloc]
	nv := g.updatePath(root, p.alloc.Type().(*types.Pointer).Elem(), p.path, v)
	s.locals[p.alloc] = g.bind(localHint(p.alloc), g.c.reg.sortOf(p.alloc.Type().(*types.Pointer).Elem()), nv)
}

func localHint(a *ssa.Alloc) string {
	if a.Comment != "" {
		return "l_" + a.Comment
	}
	return "l_" + a.Name()
}

// bind introduces a named constant equal to term (keeps terms small).
func (g *FnGen) bind(hint, sort, term string) string {
	if len(term) < 40 {
		return term
	}
	n := g.fresh(hint, sort)
	g.defs = append(g.defs, eq(n, term))
	return n
}

func (g *FnGen) updatePath(cur string, t types.Type, path []pathEl, v string) string {
	if len(path) == 0 {
		return v
	}
	e := path[0]
	if e.field >= 0 {
		si := g.c.reg.structOf(t)
		vals := make([]string, len(si.fields))
		for i, f := range si.fields {
			if i == e.field {
				vals[i] = g.updatePath(app(f.acc, cur), f.typ, path[1:], v)
			} else {
				vals[i] = app(f.acc, cur)
			}
		}
		return g.c.reg.mk(si, vals)
	}
	return store(cur, e.idx, g.updatePath(sel(cur, e.idx), e.typ, path[1:], v))
}

// ---------- operand evaluation ----------

func (g *FnGen) val(s *State, v ssa.Value) *Val {
	switch x := v.(type) {
	case *ssa.Const:
		return &Val{term: g.constTerm(x)}
	case *ssa.Global:
		return &Val{term: g.c.globalRef(x)}
	case *ssa.Function:
		return &Val{term: app("mk-fn", intLit(int64(g.c.fnID(x))), nilRef)}
	case *ssa.Builtin:
		panic(genErr("builtin %s used as value", x.Name()))
	}
	if r, ok := g.vals[v]; ok {
		return r
	}
	panic(genErr("%s: value %s (%T) not evaluated", g.fn.Name(), v.Name(), v))
}

func (g *FnGen) term(s *State, v ssa.Value) string {
	r := g.val(s, v)
	if r.place != nil {
		panic(genErr("%s: address of non-escaping local %s used as a value (%s)", g.fn.Name(), r.place.alloc.Comment, v))
	}
	return r.term
}

func (g *FnGen) constTerm(c *ssa.Const) string {
	reg := g.c.reg
	t := c.Type()
	if c.Value == nil {
		return reg.zero(t)
	}
	switch c.Value.Kind() {
	case constant.Bool:
		if constant.BoolVal(c.Value) {
			return "true"
		}
		return "false"
	case constant.Int:
		if reg.sortOf(t) == "Float" {
			return g.c.floatLit(c.Value.ExactString())
		}
		return bigLit(c.Value.ExactString())
	case constant.String:
		return reg.strLit(constant.StringVal(c.Value))
	case constant.Float:
		if reg.sortOf(t) == "Int" {
			return bigLit(constant.ToInt(c.Value).ExactString())
		}
		return g.c.floatLit(c.Value.ExactString())
	}
	panic(genErr("unsupported constant %s", c))
}

// ---------- obligations ----------

func (g *FnGen) addObl(s *State, kind, name, src, where, cond string) {
	if s.dead {
		return
	}
	g.seqN++
	o := &Obligation{Name: g.c.fnKey(g.fn) + "#" + name, Fn: g.c.fnKey(g.fn), Kind: kind, Src: src, Where: where}
	if g.fc != nil {
		o.Uses = g.fc.Uses
		o.Native = g.fc.Theory == "strings"
	}
	var b strings.Builder
	b.WriteString(strings.Join(g.decls, "\n"))
	b.WriteString("\n")
	for _, d := range g.defs {
		b.WriteString("(assert " + d + ")\n")
	}
	b.WriteString("(assert " + s.pc + ")\n")
	b.WriteString("(assert (not " + cond + "))\n")
	o.Query = b.String()
	for n, p := range g.params {
		o.Inputs = append(o.Inputs, modelVar{Name: n, Term: p.term, Go: goTypeString(p.ty.gt)})
		if p.ty.sort == "Str" && !o.Native {
			// strings are an uninterpreted sort outside the native theory: the replay needs at least the length
			o.Inputs = append(o.Inputs, modelVar{Name: n + "#len", Term: "(slen " + p.term + ")", Go: "int"})
		}
	}
	sort.Slice(o.Inputs, func(i, j int) bool { return o.Inputs[i].Name < o.Inputs[j].Name })
	g.obls = append(g.obls, o)
}

func goTypeString(t types.Type) string {
	if t == nil {
		return ""
	}
	return types.TypeString(t, nil)
}

func (g *FnGen) assume(s *State, cond string) {
	if cond == "true" {
		return
	}
	n := g.fresh("pc", "Bool")
	g.defs = append(g.defs, eq(n, and(s.pc, cond)))
	s.pc = n
}

// panicIf: the path where cond holds panics.  Under partial correctness the
// path is cut; a nopanic function gets an obligation instead.
func (g *FnGen) panicIf(s *State, cond, what string) {
	if cond == "false" {
		return
	}
	if g.fc != nil && g.fc.NoPanic && !g.fc.NoPanicExplicitOnly {
		g.addObl(s, "nopanic", fmt.Sprintf("nopanic[%s#%d]", what, g.seqN), what, g.posOf(), not(cond))
	}
	g.assume(s, not(cond))
}

func (g *FnGen) posOf() string {
	if g.curInstr != nil && g.curInstr.Pos() != token.NoPos {
		p := g.c.fset.Position(g.curInstr.Pos())
		return fmt.Sprintf("%s:%d", p.Filename, p.Line)
	}
	return ""
}

// ---------- CFG / loops ----------

func (g *FnGen) findLoops() {
	g.loops = map[*ssa.BasicBlock]*loopInfo{}
	for _, b := range g.fn.Blocks {
		for _, succ := range b.Succs {
			if succ.Dominates(b) { // back edge b -> succ
				li := g.loops[succ]
				if li == nil {
					li = &loopInfo{header: succ, blocks: map[*ssa.BasicBlock]bool{succ: true}}
					g.loops[succ] = li
				}
				// natural loop: all blocks that reach b without passing header
				stack := []*ssa.BasicBlock{b}
				for len(stack) > 0 {
					x := stack[len(stack)-1]
					stack = stack[:len(stack)-1]
					if li.blocks[x] {
						continue
					}
					li.blocks[x] = true
					stack = append(stack, x.Preds...)
				}
			}
		}
	}
	var hs []*ssa.BasicBlock
	for h := range g.loops {
		hs = append(hs, h)
	}
	sort.Slice(hs, func(i, j int) bool { return hs[i].Index < hs[j].Index })
	for _, h := range hs {
		for _, ins := range h.Instrs {
			if u, ok := ins.(*ssa.UnOp); ok {
				if a, ok := u.X.(*ssa.Alloc); ok && a.Comment == "rangeindex" {
					g.loops[h].rangeIdx = a
					break
				}
			}
		}
		for _, ins := range h.Instrs {
			if b, ok := ins.(*ssa.BinOp); ok && b.Op == token.LSS {
				if c, ok := b.Y.(*ssa.Call); ok {
					if bi, ok := c.Call.Value.(*ssa.Builtin); ok && bi.Name() == "len" && len(c.Call.Args) == 1 {
						g.loops[h].ranged = c.Call.Args[0]
					}
				}
			}
		}
	}
	for i, h := range hs {
		g.loops[h].ordinal = i + 1
		if g.fc != nil {
			g.loops[h].lc = g.fc.Loops[i+1]
		}
	}
	if g.fc != nil {
		for k := range g.fc.Loops {
			if k < 1 || k > len(hs) {
				panic(genErr("%s: contract names loop %d but the function has %d loops", g.fn.Name(), k, len(hs)))
			}
		}
	}
}

func (g *FnGen) isBackEdge(from, to *ssa.BasicBlock) bool {
	return to.Dominates(from) && g.loops[to] != nil
}

func (g *FnGen) rpo() []*ssa.BasicBlock {
	seen := map[*ssa.BasicBlock]bool{}
	var order []*ssa.BasicBlock
	var dfs func(b *ssa.BasicBlock)
	dfs = func(b *ssa.BasicBlock) {
		seen[b] = true
		for _, s := range b.Succs {
			if !seen[s] && !g.isBackEdge(b, s) {
				dfs(s)
			}
		}
		order = append(order, b)
	}
	dfs(g.fn.Blocks[0])
	for i, j := 0, len(order)-1; i < j; i, j = i+1, j-1 {
		order[i], order[j] = order[j], order[i]
	}
	return order
}

type edge struct {
	from, to *ssa.BasicBlock
}

// merge joins the states arriving on the forward edges of block b.
func (g *FnGen) merge(b *ssa.BasicBlock, ins []*State) *State {
	var live []*State
	for _, s := range ins {
		if !s.dead {
			live = append(live, s)
		}
	}
	if len(live) == 0 {
		return &State{pc: "false", dead: true, locals: map[*ssa.Alloc]string{}, heaps: map[string]string{}, ghosts: map[string]string{}, names: map[string]*ssa.Alloc{}, iters: map[*ssa.Range]string{}, next: "0"}
	}
	if len(live) == 1 {
		return live[0].clone()
	}
	out := live[0].clone()
	for _, s := range live {
		if s.gen != "" {
			out.gen = s.gen
		}
	}
	pcs := make([]string, len(live))
	for i, s := range live {
		pcs[i] = s.pc
	}
	n := g.fresh(fmt.Sprintf("pcb%d", b.Index), "Bool")
	g.defs = append(g.defs, eq(n, or(pcs...)))
	out.pc = n
	mergeTerm := func(hint, sort string, get func(*State) (string, bool)) (string, bool) {
		first, ok0 := get(live[0])
		same := ok0
		for _, s := range live[1:] {
			t, ok := get(s)
			if !ok {
				return "", false
			}
			if !ok0 || t != first {
				same = false
			}
		}
		if !ok0 {
			return "", false
		}
		if same {
			return first, true
		}
		t, _ := get(live[len(live)-1])
		for i := len(live) - 2; i >= 0; i-- {
			ti, _ := get(live[i])
			t = ite(live[i].pc, ti, t)
		}
		m := g.fresh(hint, sort)
		g.defs = append(g.defs, eq(m, t))
		return m, true
	}
	var mergeAllocs []*ssa.Alloc
	for a := range live[0].locals {
		mergeAllocs = append(mergeAllocs, a)
	}
	sort.Slice(mergeAllocs, func(i, j int) bool {
		if mergeAllocs[i].Pos() != mergeAllocs[j].Pos() {
			return mergeAllocs[i].Pos() < mergeAllocs[j].Pos()
		}
		return mergeAllocs[i].Name() < mergeAllocs[j].Name()
	})
	for _, a := range mergeAllocs {
		a := a
		t, ok := mergeTerm(localHint(a), g.c.reg.sortOf(a.Type().(*types.Pointer).Elem()), func(s *State) (string, bool) { t, ok := s.locals[a]; return t, ok })
		if ok {
			out.locals[a] = t
		} else {
			delete(out.locals, a)
		}
	}
	hs := map[string]bool{}
	for _, s := range live {
		for k := range s.heaps {
			hs[k] = true
		}
	}
	for _, k := range sortedKeys(hs) {
		k := k
		t, _ := mergeTerm(heapName(k), "(Array Ref "+k+")", func(s *State) (string, bool) { return g.heap(s, k), true })
		out.heaps[k] = t
	}
	gs := map[string]bool{}
	for _, s := range live {
		for k := range s.ghosts {
			gs[k] = true
		}
	}
	for _, k := range sortedKeys(gs) {
		k := k
		t, _ := mergeTerm("G_"+k, g.c.specSort(g.c.ghosts[k].Sort, nil).sort, func(s *State) (string, bool) { return g.ghost(s, k), true })
		out.ghosts[k] = t
	}
	t, _ := mergeTerm("next", "Int", func(s *State) (string, bool) { return s.next, true })
	out.next = t
	var mergeIters []*ssa.Range
	for rg := range live[0].iters {
		mergeIters = append(mergeIters, rg)
	}
	sort.Slice(mergeIters, func(i, j int) bool { return mergeIters[i].Pos() < mergeIters[j].Pos() })
	for _, rg := range mergeIters {
		rg := rg
		mt := rg.X.Type().Underlying().(*types.Map)
		_, ds := g.mapSorts(mt)
		t, ok := mergeTerm("visited", ds, func(s *State) (string, bool) { t, ok := s.iters[rg]; return t, ok })
		if ok {
			out.iters[rg] = t
		} else {
			delete(out.iters, rg)
		}
	}
	for _, s := range live[1:] {
		if len(s.defers) != len(live[0].defers) {
			panic(genErr("%s: conditional defer (different defer stacks at a join) is not supported", g.fn.Name()))
		}
	}
	g.mergeChans(out, live, mergeTerm)
	for name, a := range live[0].names {
		for _, s := range live[1:] {
			if s.names[name] != a {
				delete(out.names, name)
			}
		}
	}
	return out
}

// ---------- main driver ----------

func (g *FnGen) run() {
	fn := g.fn
	if len(fn.Blocks) == 0 {
		panic(genErr("%s has no body", fn.Name()))
	}
	g.findLoops()
	g.numberCalls()
	g.numberIterCalls()
	st := &State{pc: "true", locals: map[*ssa.Alloc]string{}, heaps: map[string]string{}, ghosts: map[string]string{}, names: map[string]*ssa.Alloc{}, iters: map[*ssa.Range]string{}}
	g.declare("next!0", "Int")
	st.next = "next!0"
	g.defs = append(g.defs, app(">", "next!0", "0"))
	g.params = map[string]TVal{}
	var invs []string
	for i, p := range fn.Params {
		srt := g.c.reg.sortOf(p.Type())
		name := p.Name()
		if name == "" || name == "_" {
			name = fmt.Sprintf("arg%d", i)
		}
		n := "p_" + sanitize(name)
		g.declare(n, srt)
		g.vals[p] = &Val{term: n}
		g.params[name] = TVal{term: n, ty: Ty{sort: srt, gt: p.Type()}}
		invs = append(invs, g.typeInv(st, n, p.Type(), 0))
	}
	for i, fv := range fn.FreeVars {
		// captured variables are addresses of the enclosing function's cells
		n := fmt.Sprintf("fv_%s", sanitize(fv.Name()))
		g.declare(n, "Ref")
		g.vals[fv] = &Val{term: n}
		g.params[fv.Name()] = TVal{term: n, ty: Ty{sort: "Ref", gt: fv.Type()}}
		invs = append(invs, app("<", app("rid", n), st.next), not(eq(n, nilRef)))
		_ = i
	}
	g.assume(st, and(invs...))
	g.entry = st.clone()
	// requires
	if g.fc != nil {
		env := g.newEnv(st, g.entry)
		var reqs []string
		for _, r := range g.fc.Requires {
			reqs = append(reqs, env.boolExpr(r.E))
		}
		g.assume(st, and(reqs...))
	}
	g.reqPC = st.pc
	g.entry.pc = st.pc
	g.cover = append(g.cover, coverPoint{"requires-sat", st.pc})

	order := g.rpo()
	edgeStates := map[edge]*State{}
	g.edges = edgeStates
	for _, b := range order {
		var cur *State
		if b == fn.Blocks[0] {
			cur = st
		} else {
			var ins []*State
			for _, p := range b.Preds {
				if g.isBackEdge(p, b) {
					continue
				}
				if s, ok := edgeStates[edge{p, b}]; ok {
					ins = append(ins, s)
				}
			}
			cur = g.merge(b, ins)
		}
		g.curBlock = b
		if li := g.loops[b]; li != nil {
			g.loopHead(cur, li)
		}
		g.execBlock(cur, b, edgeStates)
	}
}

func (g *FnGen) loopHead(s *State, li *loopInfo) {
	if li.lc == nil || len(li.lc.Invariants) == 0 {
		panic(genErr("%s: loop %d has no invariant", g.fn.Name(), li.ordinal))
	}
	// init
	li.pre = s.clone()
	env := g.newEnv(s, g.entry)
	env.loop = li
	for i, inv := range li.lc.Invariants {
		for j, c := range env.conjuncts(inv.E) {
			g.addObl(s, "inv-init", fmt.Sprintf("inv-init[%d.%s]", li.ordinal, clauseID(inv, i, j)), inv.Src, inv.Where, c)
		}
	}
	if s.dead {
		return
	}
	// havoc locals assigned in the loop
	assigned := map[*ssa.Alloc]bool{}
	heapSorts := map[string]bool{}
	ghostsMod := map[string]bool{}
	allocs := false
	for b := range li.blocks {
		for _, ins := range b.Instrs {
			g.scanEffects(ins, assigned, heapSorts, ghostsMod, &allocs)
			if nx, ok := ins.(*ssa.Next); ok {
				if rg, ok := nx.Iter.(*ssa.Range); ok {
					if _, live := s.iters[rg]; live {
						_, ds := g.mapSorts(rg.X.Type().Underlying().(*types.Map))
						s.iters[rg] = g.fresh("visited_h", ds)
					}
				}
			}
		}
	}
	g.havocChans(s, li)
	for b := range li.blocks {
		for _, ins := range b.Instrs {
			if ci, ok := ins.(ssa.CallInstruction); ok && g.isCallbackParam(ci.Common().Value) {
				s.gen = fmt.Sprintf("!cbl%d", li.ordinal)
			}
		}
	}
	var allocList []*ssa.Alloc
	for a := range assigned {
		if _, ok := s.locals[a]; ok {
			allocList = append(allocList, a)
		}
	}
	sort.Slice(allocList, func(i, j int) bool { return allocList[i].Pos() < allocList[j].Pos() || (allocList[i].Pos() == allocList[j].Pos() && allocList[i].Name() < allocList[j].Name()) })
	var tinv []string
	pre := s.clone()
	for _, a := range allocList {
		et := a.Type().(*types.Pointer).Elem()
		n := g.fresh(localHint(a)+"_h", g.c.reg.sortOf(et))
		s.locals[a] = n
	}
	if allocs {
		n := g.fresh("next_h", "Int")
		tinv = append(tinv, app(">=", n, s.next))
		s.next = n
	}
	for _, a := range allocList {
		tinv = append(tinv, g.typeInv(s, s.locals[a], a.Type().(*types.Pointer).Elem(), 0))
	}
	// heap havoc with frame from the loop's (or the function's) modifies clause
	mods, hasMod := li.lc.Modifies, li.lc.HasMod
	if !hasMod && g.fc != nil {
		mods, hasMod = g.fc.Modifies, g.fc.HasMod
	}
	var hl []string
	for k := range heapSorts {
		hl = append(hl, k)
	}
	sort.Strings(hl)
	fenv := g.newEnv(pre, g.entry)
	fenv.loop = li
	li.entered = true
	li.nextPre = pre.next
	li.pre = pre
	// loop frame: with `loop k modifies` what it names, otherwise what the function's modifies clause names;
	// in addition the loop may change objects it allocates and the address-taken locals it assigns directly
	li.pats = g.evalPats(fenv, mods)
	li.touched = g.touchedLocals(li)
	for _, k := range hl {
		old := g.heap(pre, k)
		n := g.fresh(heapName(k)+"_h", "(Array Ref "+k+")")
		s.heaps[k] = n
		tinv = append(tinv, g.frameAxiomPats(li.pats, k, old, n, pre.next, li.touched))
		if c := closedHeapAxiom(n, k, s.next); c != "" {
			tinv = append(tinv, c)
		}
	}
	for _, name := range sortedKeys(ghostsMod) {
		gd := g.c.ghosts[name]
		s.ghosts[name] = g.fresh("G_"+name+"_h", g.ghostSort(gd))
	}
	g.assume(s, and(tinv...))
	env = g.newEnv(s, g.entry)
	env.loop = li
	var is []string
	for _, inv := range li.lc.Invariants {
		is = append(is, env.boolExpr(inv.E))
	}
	g.assume(s, and(is...))
	g.cover = append(g.cover, coverPoint{fmt.Sprintf("loop%d-head", li.ordinal), s.pc})
}

// closedHeapAxiom: references held in the cells of existing objects denote existing objects (rid below the allocation
// frontier).  An invariant of the memory model: every reference value is created below the frontier (parameters,
// allocations, typed results) and the frontier only grows; stated for havocked heaps, where it would otherwise be lost.
func closedHeapAxiom(heap, sort, next string) string {
	var tgt string
	switch sort {
	case "Ref":
		tgt = "(select " + heap + " r)"
	case "Slice":
		tgt = "(s-arr (select " + heap + " r))"
	case "Iface":
		tgt = "(i-val (select " + heap + " r))"
	case "Fn":
		tgt = "(fn-env (select " + heap + " r))"
	default:
		return ""
	}
	return fmt.Sprintf("(forall ((r Ref)) (! (=> (< (rid r) %s) (< (rid %s) %s)) :pattern ((select %s r))))", next, tgt, next, heap)
}

func clauseID(c Clause, i, j int) string {
	id := fmt.Sprintf("%d", i+1)
	if c.Label != "" {
		id = c.Label
	}
	if j > 0 {
		id += fmt.Sprintf(".%d", j+1)
	}
	return id
}

// scanEffects statically collects what an instruction may modify.
func (g *FnGen) scanEffects(ins ssa.Instruction, assigned map[*ssa.Alloc]bool, heapSorts, ghosts map[string]bool, allocs *bool) {
	switch x := ins.(type) {
	case *ssa.Store:
		if a := rootAlloc(x.Addr); a != nil && !a.Heap {
			assigned[a] = true
		} else {
			g.cellSorts(x.Val.Type(), heapSorts)
		}
	case *ssa.Alloc:
		if x.Heap {
			*allocs = true
			g.cellSorts(x.Type().(*types.Pointer).Elem(), heapSorts)
		} else {
			assigned[x] = true
		}
	case *ssa.MakeSlice, *ssa.MakeMap, *ssa.MakeClosure, *ssa.MakeInterface:
		*allocs = true
		if ms, ok := x.(*ssa.MakeSlice); ok {
			g.cellSorts(ms.Type().Underlying().(*types.Slice).Elem(), heapSorts)
		}
	case *ssa.UnOp:
		if x.Op == token.ARROW && g.hasChanProtocol() {
			ghosts["ChanPending"], ghosts["InFlight"] = true, true
		}
		if x.Op == token.ARROW && g.fc != nil {
			if co, ok := g.callOrd[ins]; ok {
				for _, h := range g.fc.CallHooks {
					if h.Callee == co.key && h.K == co.k && h.Ghost != "" {
						ghosts[h.Ghost] = true
					}
				}
			}
		}
	case *ssa.Select:
		if g.hasChanProtocol() {
			ghosts["ChanPending"], ghosts["InFlight"] = true, true
		}
		if g.fc != nil {
			for _, sg := range g.fc.SelectGhost {
				if sg.Ghost != "" {
					ghosts[sg.Ghost] = true
				}
			}
		}
	case *ssa.Send:
		if g.fc != nil {
			if co, ok := g.callOrd[ins]; ok {
				for _, h := range g.fc.CallHooks {
					if h.Callee == co.key && (h.K == co.k || h.K == 0) && h.Ghost != "" {
						ghosts[h.Ghost] = true
					}
				}
			}
		}
	case *ssa.MakeChan:
		*allocs = true
		if g.hasChanProtocol() {
			ghosts["ChanKind"] = true
		}
	case *ssa.MapUpdate:
		mt := x.Map.Type().Underlying().(*types.Map)
		vs, ds := g.mapSorts(mt)
		heapSorts[vs], heapSorts[ds] = true, true
	case ssa.CallInstruction:
		if g.fc != nil {
			if co, ok := g.callOrd[ins]; ok {
				for _, h := range g.fc.CallHooks {
					if h.Callee == co.key && h.K == co.k && h.Ghost != "" {
						ghosts[h.Ghost] = true
					}
				}
			}
		}
		com := x.Common()
		if b, ok := com.Value.(*ssa.Builtin); ok {
			if b.Name() == "append" || b.Name() == "copy" {
				if g.c.reg.sortOf(com.Args[0].Type()) == "Str" {
					return
				}
				*allocs = true
				g.cellSorts(com.Args[0].Type().Underlying().(*types.Slice).Elem(), heapSorts)
			}
			return
		}
		if b, ok := com.Value.(*ssa.Builtin); ok && b.Name() == "delete" {
			mt := com.Args[0].Type().Underlying().(*types.Map)
			_, ds := g.mapSorts(mt)
			heapSorts[ds] = true
			return
		}
		if g.intrinsicSorts(com, heapSorts) {
			return
		}
		if g.isCallbackParam(com.Value) && !com.IsInvoke() {
			g.callbackEffects(heapSorts, ghosts, allocs)
			return
		}
		var fc *FuncContract
		var ct *callTarget
		if ifc, _, ok := g.iterCallSite(com); ok {
			// iterator call: the effects of the closure it is given
			for i, a := range com.Args {
				_ = i
				if mc, ok := a.(*ssa.MakeClosure); ok {
					fn := mc.Fn.(*ssa.Function)
					cfc := g.c.contracts[g.c.fnKey(fn)]
					if cfc == nil {
						continue
					}
					cct := &callTarget{fc: cfc, key: g.c.fnKey(fn), sig: fn.Signature, fn: fn, caps: map[string]capturedVar{}}
					var cargs []TVal
					for i := 0; i < fn.Signature.Params().Len(); i++ {
						cct.names = append(cct.names, fn.Signature.Params().At(i).Name())
						pt := fn.Signature.Params().At(i).Type()
						cargs = append(cargs, TVal{term: "?", ty: Ty{sort: g.c.reg.sortOf(pt), gt: pt}})
					}
					for i, fv := range fn.FreeVars {
						cct.caps[fv.Name()] = capturedVar{"?", mc.Bindings[i].Type().(*types.Pointer).Elem()}
					}
					for _, m := range cfc.Modifies {
						g.locsetSorts(cfc, cct, cargs, m, heapSorts, ghosts)
					}
				}
			}
			_ = ifc
		}
		if mc, ok := com.Value.(*ssa.MakeClosure); ok && !com.IsInvoke() {
			fn := mc.Fn.(*ssa.Function)
			fc = g.c.contracts[g.c.fnKey(fn)]
			ct = &callTarget{fc: fc, key: g.c.fnKey(fn), sig: fn.Signature, fn: fn, caps: map[string]capturedVar{}}
			for i := 0; i < fn.Signature.Params().Len(); i++ {
				ct.names = append(ct.names, fn.Signature.Params().At(i).Name())
			}
			for i, fv := range fn.FreeVars {
				ct.caps[fv.Name()] = capturedVar{"?", mc.Bindings[i].Type().(*types.Pointer).Elem()}
			}
		} else {
			fc, ct = g.c.calleeContract(g, com)
		}
		if fc == nil {
			return
		}
		*allocs = true
		var args []TVal
		if com.IsInvoke() {
			args = append(args, TVal{term: "?", ty: Ty{sort: "Iface", gt: com.Value.Type()}})
		}
		for _, a := range com.Args {
			args = append(args, TVal{term: "?", ty: Ty{sort: g.c.reg.sortOf(a.Type()), gt: a.Type()}})
		}
		for _, m := range fc.Modifies {
			g.locsetSorts(fc, ct, args, m, heapSorts, ghosts)
		}
	}
}

func rootAlloc(v ssa.Value) *ssa.Alloc {
	for {
		switch x := v.(type) {
		case *ssa.Alloc:
			return x
		case *ssa.FieldAddr:
			v = x.X
		case *ssa.IndexAddr:
			if _, ok := x.X.Type().Underlying().(*types.Pointer); ok {
				v = x.X
			} else {
				return nil
			}
		default:
			return nil
		}
	}
}

// cellSorts adds the primitive sorts of all cells of a value of type t.
func (g *FnGen) cellSorts(t types.Type, out map[string]bool) {
	if mc, ok := t.(*mapCells); ok {
		vs, ds := g.mapSorts(mc.m)
		out[vs], out[ds] = true, true
		return
	}
	if si := g.c.reg.structOf(t); si != nil {
		for _, f := range si.fields {
			g.cellSorts(f.typ, out)
		}
		return
	}
	if a, ok := t.Underlying().(*types.Array); ok {
		g.cellSorts(a.Elem(), out)
		return
	}
	out[g.c.reg.sortOf(t)] = true
}

func (g *FnGen) execBlock(s *State, b *ssa.BasicBlock, edges map[edge]*State) {
	for _, ins := range b.Instrs {
		if s.dead {
			break
		}
		g.curInstr = ins
		g.exec(s, ins)
	}
	if s.dead {
		return
	}
	last := b.Instrs[len(b.Instrs)-1]
	switch x := last.(type) {
	case *ssa.If:
		c := g.term(s, x.Cond)
		t, f := s.clone(), s.clone()
		g.assume(t, c)
		g.assume(f, not(c))
		g.flow(t, b, b.Succs[0], edges)
		g.flow(f, b, b.Succs[1], edges)
	case *ssa.Jump:
		g.flow(s, b, b.Succs[0], edges)
	}
}

func (g *FnGen) flow(s *State, from, to *ssa.BasicBlock, edges map[edge]*State) {
	if g.isBackEdge(from, to) {
		li := g.loops[to]
		env := g.newEnv(s, g.entry)
		env.loop = li
		for i, inv := range li.lc.Invariants {
			for j, c := range env.conjuncts(inv.E) {
				g.addObl(s, "inv-pres", fmt.Sprintf("inv-pres[%d.%s]@b%d", li.ordinal, clauseID(inv, i, j), from.Index), inv.Src, inv.Where, c)
			}
		}
		return
	}
	edges[edge{from, to}] = s
}

func (g *FnGen) exec(s *State, ins ssa.Instruction) {
	reg := g.c.reg
	switch x := ins.(type) {
	case *ssa.DebugRef:
	case *ssa.Alloc:
		et := x.Type().(*types.Pointer).Elem()
		if x.Comment != "" {
			s.names[x.Comment] = x
		}
		if !x.Heap {
			s.locals[x] = reg.zero(et)
			g.vals[x] = &Val{place: &Place{alloc: x}}
			return
		}
		r := g.allocRef(s, "new_"+x.Comment)
		g.storeTo(s, r, et, reg.zero(et))
		g.vals[x] = &Val{term: r}
	case *ssa.Store:
		a := g.val(s, x.Addr)
		v := g.term(s, x.Val)
		if a.place != nil {
			g.writePlace(s, a.place, v)
			return
		}
		g.panicIf(s, eq(a.term, nilRef), "nil-deref")
		g.checkFrame(s, a.term, x.Val.Type())
		g.storeTo(s, a.term, x.Val.Type(), v)
	case *ssa.UnOp:
		g.execUnOp(s, x)
	case *ssa.BinOp:
		g.vals[x] = &Val{term: g.binop(s, x.Op, g.term(s, x.X), g.term(s, x.Y), x.X.Type(), x.Y.Type())}
	case *ssa.FieldAddr:
		a := g.val(s, x.X)
		st := x.X.Type().Underlying().(*types.Pointer).Elem()
		ft := st.Underlying().(*types.Struct).Field(x.Field).Type()
		if a.place != nil {
			np := &Place{alloc: a.place.alloc, path: append(append([]pathEl{}, a.place.path...), pathEl{field: x.Field, typ: ft})}
			g.vals[x] = &Val{place: np}
			return
		}
		if reg.structOf(st) == nil {
			panic(genErr("field address into opaque type %s", st))
		}
		g.panicIf(s, eq(a.term, nilRef), "nil-deref")
		g.vals[x] = &Val{term: g.bind("fa", "Ref", refFld(a.term, x.Field))}
	case *ssa.Field:
		si := reg.structOf(x.X.Type())
		if si == nil {
			panic(genErr("field of opaque type %s", x.X.Type()))
		}
		g.vals[x] = &Val{term: app(si.fields[x.Field].acc, g.term(s, x.X))}
	case *ssa.IndexAddr:
		idx := g.term(s, x.Index)
		switch u := x.X.Type().Underlying().(type) {
		case *types.Slice:
			sl := g.term(s, x.X)
			g.panicIf(s, or(app("<", idx, "0"), app(">=", idx, app("s-len", sl))), "index")
			g.vals[x] = &Val{term: g.bind("ia", "Ref", app("elemref", sl, idx))}
		case *types.Pointer: // *[N]T
			arr := u.Elem().Underlying().(*types.Array)
			a := g.val(s, x.X)
			g.panicIf(s, or(app("<", idx, "0"), app(">=", idx, intLit(arr.Len()))), "index")
			if a.place != nil {
				np := &Place{alloc: a.place.alloc, path: append(append([]pathEl{}, a.place.path...), pathEl{field: -1, idx: idx, typ: arr.Elem()})}
				g.vals[x] = &Val{place: np}
				return
			}
			g.vals[x] = &Val{term: g.bind("ia", "Ref", refSub(a.term, idx))}
		default:
			panic(genErr("IndexAddr on %s", x.X.Type()))
		}
	case *ssa.Index:
		idx := g.term(s, x.Index)
		switch u := x.X.Type().Underlying().(type) {
		case *types.Array:
			g.panicIf(s, or(app("<", idx, "0"), app(">=", idx, intLit(u.Len()))), "index")
			g.vals[x] = &Val{term: sel(g.term(s, x.X), idx)}
		default: // string
			str := g.term(s, x.X)
			g.panicIf(s, or(app("<", idx, "0"), app(">=", idx, app("slen", str))), "index")
			g.vals[x] = &Val{term: app("sidx", str, idx)}
			g.c.needSidx = true
		}
	case *ssa.Slice:
		g.execSlice(s, x)
	case *ssa.MakeSlice:
		n, c := g.term(s, x.Len), g.term(s, x.Cap)
		g.panicIf(s, or(app("<", n, "0"), app("<", c, n)), "makeslice")
		if isByteSlice(x.Type()) {
			t := g.fresh("bytes", "Str")
			g.assume(s, eq(app("slen", t), n))
			g.vals[x] = &Val{term: t}
			return
		}
		r := g.allocRef(s, "mkslice")
		g.zeroArray(s, r, x.Type().Underlying().(*types.Slice).Elem(), c)
		g.vals[x] = &Val{term: app("mk-slice", r, "0", n, c)}
	case *ssa.Extract:
		tv := g.val(s, x.Tuple)
		if tv.tuple == nil {
			panic(genErr("extract from non-tuple %s", x.Tuple))
		}
		g.vals[x] = &Val{term: tv.tuple[x.Index]}
	case *ssa.Phi:
		// only from && / || : pick by predecessor pc — handled via edge conditions
		g.execPhi(s, x)
	case *ssa.ChangeType:
		g.vals[x] = &Val{term: g.changeType(g.term(s, x.X), x.X.Type(), x.Type())}
	case *ssa.ChangeInterface:
		g.vals[x] = &Val{term: g.term(s, x.X)}
	case *ssa.Convert:
		g.vals[x] = &Val{term: g.convert(s, g.term(s, x.X), x.X.Type(), x.Type())}
	case *ssa.MakeInterface:
		g.vals[x] = &Val{term: g.makeIface(s, g.term(s, x.X), x.X.Type())}
	case *ssa.TypeAssert:
		g.execTypeAssert(s, x)
	case *ssa.Call:
		g.execCall(s, x, x.Common(), x)
		g.runHooks(s, x, "", nil)
	case *ssa.Defer:
		g.execDefer(s, x)
	case *ssa.RunDefers:
		g.execRunDefers(s)
	case *ssa.Go:
		g.execGo(s, x)
	case *ssa.Return:
		g.execReturn(s, x)
		s.dead = true
	case *ssa.Panic:
		if g.fc != nil && g.fc.NoPanic {
			g.addObl(s, "nopanic", fmt.Sprintf("nopanic[panic#%d]", g.seqN), "explicit panic", g.posOf(), "false")
		}
		s.dead = true
	case *ssa.If, *ssa.Jump:
	case *ssa.MakeClosure:
		g.execMakeClosure(s, x)
	case *ssa.MakeMap:
		g.execMakeMap(s, x)
	case *ssa.MapUpdate:
		g.execMapUpdate(s, x)
	case *ssa.Lookup:
		g.execLookup(s, x)
	case *ssa.Range:
		g.execRange(s, x)
	case *ssa.Next:
		g.execNext(s, x)
	case *ssa.Select:
		g.execSelect(s, x)
	case *ssa.Send:
		g.execSend(s, x)
	case *ssa.MakeChan:
		g.execMakeChan(s, x)
	default:
		panic(genErr("%s: unsupported instruction %T: %s", g.fn.Name(), ins, ins))
	}
}

func (g *FnGen) allocRef(s *State, hint string) string {
	r := g.bind("ref_"+hint, "Ref", refRoot(s.next))
	if r == refRoot(s.next) {
		n := g.fresh("ref_"+hint, "Ref")
		g.defs = append(g.defs, eq(n, r))
		r = n
	}
	nn := g.fresh("next", "Int")
	g.defs = append(g.defs, eq(nn, app("+", s.next, "1")))
	s.next = nn
	return r
}

// zeroArray states that all cells of the fresh array r (n elements of type et) are zero.
func (g *FnGen) zeroArray(s *State, r string, et types.Type, n string) {
	sorts := map[string]bool{}
	g.cellSorts(et, sorts)
	for _, k := range sortedKeys(sorts) {
		h := g.heap(s, k)
		nh := g.fresh(heapName(k), "(Array Ref "+k+")")
		// cells of the fresh object are zero, everything else unchanged
		g.defs = append(g.defs, fmt.Sprintf("(forall ((r Ref)) (! (= (select %s r) (ite (= (rid r) (rid %s)) %s (select %s r))) :pattern ((select %s r))))",
			nh, r, g.c.reg.zeroOfSort(k, nil), h, nh))
		s.heaps[k] = nh
	}
}

func (g *FnGen) execUnOp(s *State, x *ssa.UnOp) {
	switch x.Op {
	case token.MUL: // load
		a := g.val(s, x.X)
		if a.place != nil {
			g.vals[x] = &Val{term: g.readPlace(s, a.place)}
			return
		}
		if gl, ok := x.X.(*ssa.Global); ok {
			if t, ok := g.c.globalConst(g, gl); ok {
				g.vals[x] = &Val{term: t}
				return
			}
		}
		g.panicIf(s, eq(a.term, nilRef), "nil-deref")
		t := g.bind("ld", g.c.reg.sortOf(x.Type()), g.load(s, a.term, x.Type()))
		g.assume(s, g.typeInv(s, t, x.Type(), 0))
		g.vals[x] = &Val{term: t}
	case token.NOT:
		g.vals[x] = &Val{term: not(g.term(s, x.X))}
	case token.SUB:
		g.vals[x] = &Val{term: app("-", g.term(s, x.X))}
	case token.ARROW:
		g.execRecv(s, x)
	default:
		panic(genErr("unsupported unary op %s", x.Op))
	}
}

func (g *FnGen) binop(s *State, op token.Token, a, b string, ta, tb types.Type) string {
	srt := g.c.reg.sortOf(ta)
	switch op {
	case token.EQL:
		return eq(a, b)
	case token.NEQ:
		return not(eq(a, b))
	}
	switch srt {
	case "Int":
		switch op {
		case token.ADD:
			return app("+", a, b)
		case token.SUB:
			return app("-", a, b)
		case token.MUL:
			return app("*", a, b)
		case token.QUO:
			g.panicIf(s, eq(b, "0"), "div0")
			return app("tdiv", a, b)
		case token.REM:
			g.panicIf(s, eq(b, "0"), "div0")
			return app("tmod", a, b)
		case token.LSS:
			return app("<", a, b)
		case token.LEQ:
			return app("<=", a, b)
		case token.GTR:
			return app(">", a, b)
		case token.GEQ:
			return app(">=", a, b)
		case token.SHL, token.SHR, token.AND, token.OR, token.XOR, token.AND_NOT:
			g.c.needBits = true
			return app("bits_"+sanitize(op.String()), a, b)
		}
	case "Str":
		switch op {
		case token.ADD:
			return app("scat", a, b)
		case token.LSS:
			g.c.needSlt = true
			return app("slt", a, b)
		case token.GTR:
			g.c.needSlt = true
			return app("slt", b, a)
		case token.LEQ:
			g.c.needSlt = true
			return not(app("slt", b, a))
		case token.GEQ:
			g.c.needSlt = true
			return not(app("slt", a, b))
		}
	case "Bool":
		switch op {
		case token.AND, token.LAND:
			return and(a, b)
		case token.OR, token.LOR:
			return or(a, b)
		}
	case "Float":
		g.c.needFloat = true
		switch op {
		case token.ADD:
			return app("fadd", a, b)
		case token.SUB:
			return app("fsub", a, b)
		case token.MUL:
			return app("fmul", a, b)
		case token.QUO:
			return app("fdiv", a, b)
		case token.LSS:
			return app("flt", a, b)
		case token.LEQ:
			return not(app("flt", b, a))
		case token.GTR:
			return app("flt", b, a)
		case token.GEQ:
			return not(app("flt", a, b))
		}
	}
	panic(genErr("unsupported binary op %s on %s", op, ta))
}

func (g *FnGen) convert(s *State, v string, from, to types.Type) string {
	fs, ts := g.c.reg.sortOf(from), g.c.reg.sortOf(to)
	if fs == ts {
		if fs == "Int" {
			// integer narrowing: modelled exactly when the value fits (A-ARITH otherwise)
			return v
		}
		return v
	}
	if fs == "Int" && ts == "Float" {
		g.c.needFloat = true
		return app("i2f", v)
	}
	if fs == "Float" && ts == "Int" {
		g.c.needFloat = true
		return app("f2i", v)
	}
	if fs == "Int" && ts == "Str" {
		g.c.needSidx = true
		return app("chr", v)
	}
	panic(genErr("unsupported conversion %s -> %s", from, to))
}

// changeType: conversion between types with identical underlying types; distinct named struct types have
// distinct SMT sorts, so the value is rebuilt field by field.
func (g *FnGen) changeType(v string, from, to types.Type) string {
	fs, ts := g.c.reg.sortOf(from), g.c.reg.sortOf(to)
	if fs == ts {
		return v
	}
	fi, ti := g.c.reg.structOf(from), g.c.reg.structOf(to)
	if fi == nil || ti == nil || len(fi.fields) != len(ti.fields) {
		panic(genErr("unsupported type change %s -> %s", from, to))
	}
	var vals []string
	for i, f := range fi.fields {
		vals = append(vals, g.changeType(app(f.acc, v), f.typ, ti.fields[i].typ))
	}
	return g.bind("conv", ts, g.c.reg.mk(ti, vals))
}

func (g *FnGen) makeIface(s *State, v string, t types.Type) string {
	tid := intLit(int64(g.c.typeID(t)))
	if g.c.reg.sortOf(t) == "Ref" {
		return app("mk-iface", tid, v)
	}
	if _, ok := t.Underlying().(*types.Interface); ok {
		return v
	}
	// value type: box it in a fresh immutable cell
	r := g.allocRef(s, "box")
	g.storeTo(s, r, t, v)
	return app("mk-iface", tid, r)
}

func (g *FnGen) execTypeAssert(s *State, x *ssa.TypeAssert) {
	v := g.term(s, x.X)
	var ok, res string
	if _, isIface := x.AssertedType.Underlying().(*types.Interface); isIface {
		// asserting to an interface: succeeds iff the value is non-nil and its dynamic type implements it (abstract predicate)
		ok, res = and(not(eq(app("i-tid", v), "0")), app(g.c.implFun(x.AssertedType), app("i-tid", v))), v
	} else {
		ok = eq(app("i-tid", v), intLit(int64(g.c.typeID(x.AssertedType))))
		if g.c.reg.sortOf(x.AssertedType) == "Ref" {
			res = app("i-val", v)
		} else {
			res = g.load(s, app("i-val", v), x.AssertedType)
		}
	}
	if x.CommaOk {
		z := g.c.reg.zero(x.AssertedType)
		g.vals[x] = &Val{tuple: []string{ite(ok, res, z), ok}}
		return
	}
	g.panicIf(s, not(ok), "type-assert")
	g.vals[x] = &Val{term: res}
}

func (g *FnGen) execPhi(s *State, x *ssa.Phi) {
	// The incoming edge pcs are mutually exclusive; pick by the pc of the
	// recorded edge state.  We record phi inputs at merge time via phiEdges.
	b := x.Block()
	t := ""
	for i := len(b.Preds) - 1; i >= 0; i-- {
		p := b.Preds[i]
		es := g.edges[edge{p, b}]
		if es == nil || es.dead {
			continue
		}
		v := g.term(s, x.Edges[i])
		if t == "" {
			t = v
		} else {
			t = ite(es.pc, v, t)
		}
	}
	if t == "" {
		t = g.c.reg.zero(x.Type())
	}
	g.vals[x] = &Val{term: t}
}

// numberCalls gives every call (and unary receive) its ordinal, in source order, among the calls of the same callee.
func isConstLike(v ssa.Value) bool {
	switch v.(type) {
	case *ssa.Const, *ssa.Global, *ssa.Parameter, *ssa.FreeVar:
		return true
	}
	return false
}

func (g *FnGen) numberCalls() {
	type item struct {
		ins ssa.Instruction
		key string
	}
	var items []item
	for _, b := range g.fn.Blocks {
		for _, ins := range b.Instrs {
			switch x := ins.(type) {
			case ssa.CallInstruction:
				com := x.Common()
				if _, ok := com.Value.(*ssa.Builtin); ok {
					continue
				}
				if _, ok := com.Value.(*ssa.MakeClosure); ok && !com.IsInvoke() {
					continue
				}
				_, ct := g.c.calleeContract(g, com)
				items = append(items, item{ins, shortKey(ct.key)})
			case *ssa.UnOp:
				if x.Op == token.ARROW {
					items = append(items, item{ins, "<-"})
				}
			case *ssa.Send:
				items = append(items, item{ins, "->"})
			}
		}
	}
	sort.SliceStable(items, func(i, j int) bool { return items[i].ins.Pos() < items[j].ins.Pos() })
	g.callOrd = map[ssa.Instruction]callOrdinal{}
	cnt := map[string]int{}
	for _, it := range items {
		cnt[it.key]++
		g.callOrd[it.ins] = callOrdinal{it.key, cnt[it.key]}
	}
	if g.fc != nil {
		for _, h := range g.fc.CallHooks {
			if h.Callee == "->" && h.K == 0 {
				continue
			}
			if cnt[h.Callee] < h.K || h.K < 1 {
				panic(genErr("%s: hook names call %d of %s but the function has %d", h.Where, h.K, h.Callee, cnt[h.Callee]))
			}
		}
	}
}

// runHooks applies the contract's hooks attached to instruction ins (after it executed).
func (g *FnGen) runHooks(s *State, ins ssa.Instruction, recv string, recvT types.Type) {
	if g.fc == nil || s.dead {
		return
	}
	co, ok := g.callOrd[ins]
	if !ok {
		return
	}
	nth := 0
	for _, h := range g.fc.CallHooks {
		if h.Callee != co.key || (h.K != co.k && !(h.Callee == "->" && h.K == 0)) {
			continue
		}
		nth++
		env := g.newEnv(s, g.entry)
		for k, v := range g.hookExtra {
			env.vars[k] = v
		}
		if ci, ok := ins.(ssa.CallInstruction); ok {
			for i, a := range ci.Common().Args {
				if t := g.c.reg.sortOf(a.Type()); t != "" {
					if av := g.vals[a]; av != nil && av.term != "" || isConstLike(a) {
						env.vars[fmt.Sprintf("callarg%d", i)] = TVal{term: g.term(s, a), ty: Ty{sort: t, gt: a.Type()}}
					}
				}
			}
		}
		// inside a loop: the innermost enclosing loop gives iter / ranged / atloop their meaning
		var inner *loopInfo
		for _, li := range g.enclosingLoops() {
			if inner == nil || len(li.blocks) < len(inner.blocks) {
				inner = li
			}
		}
		env.loop = inner
		if recv != "" {
			env.vars["recv"] = TVal{term: recv, ty: Ty{sort: g.c.reg.sortOf(recvT), gt: recvT}}
		}
		// callresult / callresultN: what the hooked call returned
		if cv, ok := ins.(ssa.Value); ok {
			if v := g.vals[cv]; v != nil {
				if tup, ok := cv.Type().(*types.Tuple); ok && len(v.tuple) == tup.Len() {
					for i := 0; i < tup.Len(); i++ {
						env.vars[fmt.Sprintf("callresult%d", i)] = TVal{term: v.tuple[i], ty: Ty{sort: g.c.reg.sortOf(tup.At(i).Type()), gt: tup.At(i).Type()}}
					}
				} else if v.term != "" {
					env.vars["callresult"] = TVal{term: v.term, ty: Ty{sort: g.c.reg.sortOf(cv.Type()), gt: cv.Type()}}
				}
			}
		}
		if h.Ghost == "" {
			for j, c := range env.conjuncts(h.E) {
				g.addObl(s, "assert", fmt.Sprintf("assert@%s#%d[%d.%d]", co.key, co.k, nth, j+1), h.Src, h.Where, c)
				g.assume(s, c)
			}
			continue
		}
		gd, ok := g.c.ghosts[h.Ghost]
		if !ok {
			panic(genErr("%s: unknown ghost %s", h.Where, h.Ghost))
		}
		v := env.eval(h.E)
		s.ghosts[h.Ghost] = g.bind("G_"+h.Ghost, g.ghostSort(gd), v.term)
	}
}

// touchedLocals: references of the address-taken locals (Alloc with Heap set) that exist when the loop is
// entered and that the loop stores to directly or passes (by address) to a call.
func (g *FnGen) touchedLocals(li *loopInfo) []string {
	touched := map[*ssa.Alloc]bool{}
	for b := range li.blocks {
		for _, ins := range b.Instrs {
			switch x := ins.(type) {
			case *ssa.Store:
				if a := rootAlloc(x.Addr); a != nil {
					touched[a] = true
				}
			case ssa.CallInstruction:
				for _, arg := range x.Common().Args {
					if a := rootAlloc(arg); a != nil {
						touched[a] = true
					}
				}
				// a closure called in the loop may assign the variables it captured
				mc, _ := x.Common().Value.(*ssa.MakeClosure)
				if mc == nil {
					mc = localClosure(x.Common().Value)
				}
				if mc != nil {
					for _, b := range mc.Bindings {
						if a := rootAlloc(b); a != nil {
							touched[a] = true
						}
					}
				}
				if !x.Common().IsInvoke() {
					if a := rootAlloc(x.Common().Value); a != nil {
						touched[a] = true
					}
				}
			}
		}
	}
	var as []*ssa.Alloc
	for v := range g.vals {
		if a, ok := v.(*ssa.Alloc); ok && a.Heap && touched[a] {
			as = append(as, a)
		}
	}
	sort.Slice(as, func(i, j int) bool { return as[i].Pos() < as[j].Pos() || (as[i].Pos() == as[j].Pos() && as[i].Name() < as[j].Name()) })
	var out []string
	for _, a := range as {
		if v := g.vals[a]; v != nil && v.term != "" {
			out = append(out, v.term)
		}
	}
	return out
}


// sortedKeys: deterministic iteration order for the generator (the SMT text must not depend on Go's map order).
func sortedKeys(m map[string]bool) []string {
	ks := make([]string, 0, len(m))
	for k := range m {
		ks = append(ks, k)
	}
	sort.Strings(ks)
	return ks
}

package main

// Location sets (modifies clauses), frame axioms and frame obligations.

import (
	"fmt"
	"go/types"
	"sort"
	"strings"
)

type patEl struct {
	all    bool // wildcard without bounds
	wild   bool
	term   string
	lo, hi string
}

type locPat struct {
	anyfld int  // >= 0 with anyobj: field index f of every object (coarse: the heap model is untyped)
	anyobj bool // `anyfield(T, f)`: the cells of field f of every object of struct type T
	newobj bool // `newobjects`: every cell of every object allocated since the function was entered
	ghost  string
	base   string
	elems  []patEl
	typ    types.Type
	src    string
}

func (e *Env) evalLoc(x Expr) *locPat {
	p := e.tryLoc(x)
	if p == nil {
		panic(genErr("not a location: %s", exprString(x)))
	}
	p.src = exprString(x)
	return p
}

func (e *Env) tryLoc(x Expr) *locPat {
	switch n := x.(type) {
	case *ECall:
		if n.Fun == "anyfield" && len(n.Args) == 2 {
			t := e.c.goTypeOfExpr(n.Args[0], e.pkg)
			si := e.c.reg.structOf(t)
			id, ok := n.Args[1].(*EIdent)
			if si == nil || !ok {
				panic(genErr("anyfield(T, f): T must be a struct type and f a field name"))
			}
			for i, f := range si.fields {
				if f.name == id.Name {
					return &locPat{anyobj: true, anyfld: i, typ: f.typ}
				}
			}
			panic(genErr("anyfield: %s has no field %s", t, id.Name))
		}
		if n.Fun == "ghost" && len(n.Args) == 1 {
			if id, ok := n.Args[0].(*EIdent); ok {
				if strings.HasSuffix(id.Name, "_all") {
					return &locPat{ghost: id.Name}
				}
				if _, ok := e.c.ghosts[id.Name]; !ok {
					panic(genErr("unknown ghost %s", id.Name))
				}
				return &locPat{ghost: id.Name}
			}
		}
		return nil
	case *EStar:
		v := e.eval(n.X)
		if v.ty.gt != nil {
			if mt, ok := v.ty.gt.Underlying().(*types.Map); ok {
				return &locPat{base: v.term, typ: &mapCells{mt}}
			}
		}
		u, ok := v.ty.gt.Underlying().(*types.Slice)
		if v.ty.gt == nil || !ok {
			panic(genErr("[*] on non-slice %s", exprString(n.X)))
		}
		off := app("s-off", v.term)
		if n.All {
			return &locPat{base: app("s-arr", v.term), elems: []patEl{{wild: true, all: true}}, typ: u.Elem()}
		}
		return &locPat{base: app("s-arr", v.term), elems: []patEl{{wild: true, lo: off, hi: app("+", off, app("s-len", v.term))}}, typ: u.Elem()}
	case *EIndex:
		v := e.eval(n.X)
		i := e.eval(n.I)
		u, ok := v.ty.gt.Underlying().(*types.Slice)
		if v.ty.gt == nil || !ok {
			return nil
		}
		return &locPat{base: app("s-arr", v.term), elems: []patEl{{term: app("+", app("s-off", v.term), i.term)}}, typ: u.Elem()}
	case *EUn:
		if n.Op != "*" {
			return nil
		}
		return e.pointee(n.X)
	case *EIdent:
		if n.Name == "newobjects" {
			return &locPat{newobj: true}
		}
		if cv, ok := e.capt[n.Name]; ok {
			return &locPat{base: cv.addr, typ: cv.typ}
		}
		if e.g != nil && e.capt == nil {
			if fv := e.g.freeVar(n.Name); fv != nil {
				return &locPat{base: e.g.params[n.Name].term, typ: fv.(*types.Pointer).Elem()}
			}
		}
		return e.pointee(n)
	case *EField:
		p := e.tryLoc(n.X)
		if p == nil || p.ghost != "" {
			return nil
		}
		t := p.typ
		if _, isPtr := t.Underlying().(*types.Pointer); isPtr {
			// X designates a pointer cell; the field lives in its pointee
			p = e.pointee(n.X)
			if p == nil {
				return nil
			}
			t = p.typ
		}
		si := e.c.reg.structOf(t)
		if si == nil {
			panic(genErr("locset field %s of non-struct %s", n.Name, t))
		}
		for i, f := range si.fields {
			if f.name == n.Name {
				np := &locPat{base: p.base, elems: append(append([]patEl{}, p.elems...), patEl{term: intLit(int64(i))}), typ: f.typ}
				return np
			}
		}
		panic(genErr("locset: %s has no field %s", t, n.Name))
	}
	return nil
}

func (e *Env) pointee(x Expr) *locPat {
	v := e.eval(x)
	if v.ty.gt == nil {
		return nil
	}
	p, ok := v.ty.gt.Underlying().(*types.Pointer)
	if !ok {
		return nil
	}
	return &locPat{base: v.term, typ: p.Elem()}
}

// matchRef: r designates the cell  pat.base / pat.elems / extra
func matchRef(r string, pat *locPat, extra []int) string {
	if pat.anyobj {
		// r = (any object) / field / extra...
		tail := app("rpath", r)
		var conds []string
		for j := len(extra) - 1; j >= 0; j-- {
			conds = append(conds, "((_ is pcons) "+tail+")", eq(app("phd", tail), intLit(int64(extra[j]))))
			tail = app("ptl", tail)
		}
		// (no condition on the rest of the path: the pointer may designate an object nested anywhere)
		conds = append(conds, "((_ is pcons) "+tail+")", eq(app("phd", tail), intLit(int64(pat.anyfld))))
		return and(conds...)
	}
	var els []patEl
	els = append(els, pat.elems...)
	for _, f := range extra {
		els = append(els, patEl{term: intLit(int64(f))})
	}
	tail := app("rpath", r)
	conds := []string{eq(app("rid", r), app("rid", pat.base))}
	for _, el := range els {
		if el.wild {
			// the elements of a nil slice: no cell at all
			conds = append(conds, not(eq(pat.base, nilRef)))
			break
		}
	}
	for j := len(els) - 1; j >= 0; j-- {
		conds = append(conds, "((_ is pcons) "+tail+")")
		hd := app("phd", tail)
		if els[j].wild && els[j].all {
			// any index
		} else if els[j].wild {
			conds = append(conds, app("<=", els[j].lo, hd), app("<", hd, els[j].hi))
		} else {
			conds = append(conds, eq(hd, els[j].term))
		}
		tail = app("ptl", tail)
	}
	conds = append(conds, eq(tail, app("rpath", pat.base)))
	return and(conds...)
}

type subPath struct {
	path []int
	typ  types.Type
}

func (g *FnGen) subPaths(t types.Type) []subPath {
	var out []subPath
	var rec func(t types.Type, pre []int)
	rec = func(t types.Type, pre []int) {
		out = append(out, subPath{pre, t})
		if _, ok := t.(*mapCells); ok {
			return
		}
		if si := g.c.reg.structOf(t); si != nil {
			for i, f := range si.fields {
				rec(f.typ, append(append([]int{}, pre...), i))
			}
		}
	}
	rec(t, nil)
	return out
}

func (g *FnGen) coveredPrim(r string, pats []*locPat, sort string) string {
	var ds []string
	for _, p := range pats {
		if p.ghost != "" {
			continue
		}
		if p.newobj {
			ds = append(ds, app(">=", app("rid", r), "next!0"))
			continue
		}
		for _, pp := range g.primPaths(p.typ) {
			if pp.sort == sort {
				ds = append(ds, matchRef(r, p, pp.path))
			}
		}
	}
	return or(ds...)
}

func (g *FnGen) coveredTyped(a string, pats []*locPat, t types.Type) string {
	var ds []string
	for _, p := range pats {
		if p.ghost != "" {
			continue
		}
		if p.newobj {
			ds = append(ds, app(">=", app("rid", a), "next!0"))
			continue
		}
		for _, sp := range g.subPaths(p.typ) {
			if sameType(sp.typ, t) {
				ds = append(ds, matchRef(a, p, sp.path))
			}
		}
	}
	return or(ds...)
}

func (g *FnGen) frameAxiomPats(pats []*locPat, sort, old, nw, nextPre string, except []string) string {
	cov := g.coveredPrim("r", pats, sort)
	conds := []string{app("<", app("rid", "r"), nextPre), not(cov)}
	for _, ex := range except {
		conds = append(conds, not(eq(app("rid", "r"), app("rid", ex))))
	}
	return fmt.Sprintf("(forall ((r Ref)) (! (=> %s (= (select %s r) (select %s r))) :pattern ((select %s r))))",
		and(conds...), nw, old, nw)
}

func (g *FnGen) evalPats(env *Env, mods []Clause) []*locPat {
	var pats []*locPat
	for _, m := range mods {
		pats = append(pats, g.expandGhost(env.evalLoc(m.E))...)
	}
	return pats
}

// fnPats: the function's own modifies clause evaluated in the entry state.
func (g *FnGen) fnPats() []*locPat {
	if g.fnPatsDone {
		return g.fnPatsV
	}
	g.fnPatsDone = true
	if g.fc != nil {
		env := g.newEnv(g.entry, g.entry)
		env.post = true
		g.fnPatsV = g.evalPats(env, g.fc.Modifies)
	}
	return g.fnPatsV
}

// checkFrame: a store of a value of type t at reference a must stay inside the
// function's (and every enclosing loop's) modifies clause, or hit a fresh object.
func (g *FnGen) checkFrame(s *State, a string, t types.Type) {
	g.checkFrameCond(s, a, "true", t, "store")
}

func (g *FnGen) checkFrameCond(s *State, a, guard string, t types.Type, what string) {
	if g.fc == nil {
		return
	}
	g.frameN++
	ok := or(app(">=", app("rid", a), "next!0"), g.coveredTyped(a, g.fnPats(), t))
	if what == "append" {
		// in-place append writes element cells of the backing array a
		ok = or(app(">=", app("rid", a), "next!0"), g.coveredArr(a, g.fnPats(), t))
	}
	g.addObl(s, "frame", fmt.Sprintf("frame[%s#%d]", what, g.frameN), "modifies "+patsString(g.fnPats()), g.posOf(), implies(guard, ok))
	for _, li := range g.enclosingLoops() {
		local := "false"
		for _, tr := range li.touched {
			local = or(local, eq(app("rid", a), app("rid", tr)))
		}
		okl := or(app(">=", app("rid", a), li.nextPre), local, g.coveredTyped(a, li.pats, t))
		if what == "append" {
			okl = or(app(">=", app("rid", a), li.nextPre), local, g.coveredArr(a, li.pats, t))
		}
		g.addObl(s, "frame", fmt.Sprintf("frame[%s#%d.loop%d]", what, g.frameN, li.ordinal), "loop modifies "+patsString(li.pats), g.posOf(), implies(guard, okl))
	}
}

// coveredArr: the array object a has all elements of type t covered by some s[*] pattern.
func (g *FnGen) coveredArr(a string, pats []*locPat, t types.Type) string {
	var ds []string
	for _, p := range pats {
		if p.newobj {
			ds = append(ds, app(">=", app("rid", a), "next!0"))
			continue
		}
		if p.ghost != "" || len(p.elems) != 1 || !p.elems[0].wild || !types.Identical(p.typ, t) {
			continue
		}
		ds = append(ds, eq(a, p.base))
	}
	return or(ds...)
}

func patsString(pats []*locPat) string {
	var ss []string
	for _, p := range pats {
		if p.ghost != "" {
			ss = append(ss, "ghost "+p.ghost)
		} else {
			ss = append(ss, p.src)
		}
	}
	if len(ss) == 0 {
		return "nothing"
	}
	return strings.Join(ss, ", ")
}

func (g *FnGen) enclosingLoops() []*loopInfo {
	var out []*loopInfo
	if g.curBlock == nil {
		return nil
	}
	for _, li := range g.loops {
		if li.blocks[g.curBlock] && li.entered {
			out = append(out, li)
		}
	}
	return out
}

// checkCallFrame: everything the callee may modify must be modifiable by us.
func (g *FnGen) checkCallFrame(s *State, fc *FuncContract, env *Env, site string) {
	if g.fc == nil || len(fc.Modifies) == 0 {
		return
	}
	cpats := g.evalPats(env, fc.Modifies)
	check := func(ours []*locPat, nextPre, suffix string, touched []string) {
		ourGhosts := map[string]bool{}
		for _, p := range ours {
			if p.ghost != "" {
				ourGhosts[p.ghost] = true
			}
		}
		for i, cp := range cpats {
			if cp.ghost != "" {
				if !ourGhosts[cp.ghost] && !g.c.ghosts[cp.ghost].Scratch {
					g.addObl(s, "frame", fmt.Sprintf("frame[call@%s.%d%s]", site, i+1, suffix), "callee modifies ghost "+cp.ghost, g.posOf(), "false")
				}
				continue
			}
			sorts := map[string]bool{}
			if !cp.newobj {
				g.cellSorts(cp.typ, sorts)
			}
			var cs []string
			for _, k := range sortedKeys(sorts) {
				local := "false"
				for _, tr := range touched {
					local = or(local, eq(app("rid", "r"), app("rid", tr)))
				}
				cs = append(cs, implies(g.coveredPrim("r", []*locPat{cp}, k), or(app(">=", app("rid", "r"), nextPre), local, g.coveredPrim("r", ours, k))))
			}
			g.addObl(s, "frame", fmt.Sprintf("frame[call@%s.%d%s]", site, i+1, suffix), "callee modifies "+cp.src, g.posOf(),
				"(forall ((r Ref)) "+and(cs...)+")")
		}
	}
	check(g.fnPats(), "next!0", "", nil)
	for _, li := range g.enclosingLoops() {
		check(li.pats, li.nextPre, fmt.Sprintf(".loop%d", li.ordinal), li.touched)
	}
}

// locsetSorts: heap sorts / ghosts a callee's modifies clause may touch (typing only).
func (g *FnGen) locsetSorts(fc *FuncContract, ct *callTarget, args []TVal, m Clause, heapSorts, ghosts map[string]bool) {
	saved := g.c.curFile
	g.c.curFile = g.c.ctrFile[fc]
	defer func() { g.c.curFile = saved }()
	env := g.contractEnv(fc, ct, g.entry, g.entry, args)
	for _, p := range g.expandGhost(env.evalLoc(m.E)) {
		if p.ghost != "" {
			ghosts[p.ghost] = true
			continue
		}
		if !p.newobj {
			g.cellSorts(p.typ, heapSorts)
		}
	}
}

func sameType(a, b types.Type) bool {
	ma, oka := a.(*mapCells)
	mb, okb := b.(*mapCells)
	if oka || okb {
		return oka && okb && types.Identical(ma.m, mb.m)
	}
	return types.Identical(a, b)
}

// expandGhost: "ghost Prefix_all" names every ghost whose name starts with Prefix.
func (g *FnGen) expandGhost(p *locPat) []*locPat {
	if p.ghost == "" || !strings.HasSuffix(p.ghost, "_all") {
		return []*locPat{p}
	}
	pre := strings.TrimSuffix(p.ghost, "_all")
	var names []string
	for n := range g.c.ghosts {
		if strings.HasPrefix(n, pre) {
			names = append(names, n)
		}
	}
	sort.Strings(names)
	sort.Strings(names)
	var out []*locPat
	for _, n := range names {
		out = append(out, &locPat{ghost: n})
	}
	return out
}

package main

// Calls (modular: callee contracts only), returns, frames.

import (
	"go/token"
	"fmt"
	"go/types"
	"sort"
	"strings"

	"golang.org/x/tools/go/ssa"
)

type callTarget struct {
	fc    *FuncContract
	key   string
	sig   *types.Signature
	names []string // parameter names, receiver first
	fn    *ssa.Function
	caps  map[string]capturedVar
}

func (c *Ctx) calleeContract(g *FnGen, com *ssa.CallCommon) (*FuncContract, *callTarget) {
	ct := &callTarget{}
	if com.IsInvoke() {
		ct.key = c.ifaceKey(com.Value.Type(), com.Method.Name())
		ct.sig = com.Method.Type().(*types.Signature)
		ct.names = append(ct.names, "recv")
	} else if fn := com.StaticCallee(); fn != nil {
		ct.key = c.fnKey(fn)
		ct.sig = fn.Signature
		ct.fn = fn
		if r := fn.Signature.Recv(); r != nil {
			n := r.Name()
			if n == "" || n == "_" {
				n = "recv"
			}
			ct.names = append(ct.names, n)
		}
	} else {
		// call of a function value: contract attached to its named func type
		t := types.Unalias(com.Value.Type())
		ct.sig = t.Underlying().(*types.Signature)
		if n, ok := t.(*types.Named); ok {
			pp := ""
			if n.Obj().Pkg() != nil {
				pp = n.Obj().Pkg().Path()
			}
			ct.key = pp + ".(" + n.Obj().Name() + ").functype"
		} else {
			ct.key = "?.(func " + t.String() + ")"
		}
	}
	for i := 0; i < ct.sig.Params().Len(); i++ {
		n := ct.sig.Params().At(i).Name()
		if n == "" || n == "_" {
			n = fmt.Sprintf("arg%d", i)
		}
		ct.names = append(ct.names, n)
	}
	fc := c.contracts[ct.key]
	if fc != nil && fc.Extern && len(fc.Params) > 0 {
		if len(fc.Params) != len(ct.names) {
			panic(genErr("%s: extern %s declares %d parameters, callee has %d", fc.Where, ct.key, len(fc.Params), len(ct.names)))
		}
		ct.names = fc.Params
	}
	ct.fc = fc
	return fc, ct
}

func (g *FnGen) execCall(s *State, ins ssa.Instruction, com *ssa.CallCommon, res ssa.Value) {
	if b, ok := com.Value.(*ssa.Builtin); ok {
		g.execBuiltin(s, b, com, res)
		return
	}
	if mc, ok := com.Value.(*ssa.MakeClosure); ok && !com.IsInvoke() {
		g.execClosureCall(s, mc, com, res)
		return
	}
	if mc := localClosure(com.Value); mc != nil && !com.IsInvoke() {
		g.execClosureCall(s, mc, com, res)
		return
	}
	if g.intrinsic(s, com, res) {
		return
	}
	if g.isCallbackParam(com.Value) && !com.IsInvoke() {
		g.execCallbackCall(s, com, res)
		return
	}
	if com.IsInvoke() {
		if g.boundInvoke(s, com, res) {
			return
		}
	}
	fc, ct := g.c.calleeContract(g, com)
	if fc != nil && fc.Iterates != nil {
		var iargs []TVal
		for _, a := range com.Args {
			iargs = append(iargs, TVal{term: g.term(s, a), ty: Ty{sort: g.c.reg.sortOf(a.Type()), gt: a.Type()}})
		}
		g.execIterCall(s, ins, res, fc, ct, iargs, com.Args)
		return
	}
	var args []TVal
	if com.IsInvoke() {
		args = append(args, TVal{term: g.term(s, com.Value), ty: Ty{sort: "Iface", gt: com.Value.Type()}})
	}
	if com.StaticCallee() == nil && !com.IsInvoke() {
		// func value call: evaluate the function value (nil => panic)
		fv := g.term(s, com.Value)
		g.panicIf(s, eq(fv, "nilfn"), "nil-func")
	}
	for _, a := range com.Args {
		args = append(args, TVal{term: g.term(s, a), ty: Ty{sort: g.c.reg.sortOf(a.Type()), gt: a.Type()}})
	}
	if com.IsInvoke() {
		g.panicIf(s, eq(args[0].term, "niliface"), "nil-iface-call")
	}
	results := ct.sig.Results()
	if fc == nil {
		if g.c.isDropped(ct.key) {
			g.usedDropped[ct.key] = true
			g.setResults(s, res, results, nil, "dropped")
			return
		}
		panic(genErr("%s: call to %s has no contract (add a contract, an extern, or list it as dropped)", g.fn.Name(), ct.key))
	}
	if fc.Extern || fc.Trusted {
		g.usedExtern[ct.key] = true
	}
	g.applyContract(s, fc, ct, args, res, results)
}

func (g *FnGen) setResults(s *State, res ssa.Value, results *types.Tuple, terms []string, hint string) []TVal {
	var out []TVal
	for i := 0; i < results.Len(); i++ {
		t := results.At(i).Type()
		var term string
		if terms != nil {
			term = terms[i]
		} else {
			term = g.fresh("r_"+hint, g.c.reg.sortOf(t))
			g.assume(s, g.typeInv(s, term, t, 0))
		}
		out = append(out, TVal{term: term, ty: Ty{sort: g.c.reg.sortOf(t), gt: t}})
	}
	if res != nil {
		switch len(out) {
		case 0:
		case 1:
			g.vals[res] = &Val{term: out[0].term}
		default:
			ts := make([]string, len(out))
			for i, o := range out {
				ts[i] = o.term
			}
			g.vals[res] = &Val{tuple: ts}
		}
	}
	return out
}

func shortKey(key string) string {
	if i := strings.LastIndex(key, "/"); i >= 0 {
		return key[i+1:]
	}
	return key
}

func (g *FnGen) contractEnv(fc *FuncContract, ct *callTarget, cur, old *State, args []TVal) *Env {
	env := &Env{c: g.c, g: g, cur: cur, hst: cur, old: old, vars: map[string]TVal{}, post: true}
	if p := g.c.typesPkgs[fc.PkgPath]; p != nil {
		env.pkg = p
	}
	env.file = g.c.ctrFile[fc]
	if len(ct.names) != len(args) {
		panic(genErr("call to %s: %d names for %d arguments", ct.key, len(ct.names), len(args)))
	}
	for i, n := range ct.names {
		env.vars[n] = args[i]
	}
	env.calleeMode = true
	env.capt = ct.caps
	return env
}

func (g *FnGen) applyContract(s *State, fc *FuncContract, ct *callTarget, args []TVal, res ssa.Value, results *types.Tuple) []TVal {
	saved := g.c.curFile
	g.c.curFile = g.c.ctrFile[fc]
	defer func() { g.c.curFile = saved }()
	g.callN++
	site := fmt.Sprintf("%s#%d", shortKey(ct.key), g.callN)
	env := g.contractEnv(fc, ct, s, s, args)
	for i, r := range fc.Requires {
		for j, c := range env.conjuncts(r.E) {
			g.addObl(s, "requires", fmt.Sprintf("requires@%s[%s]", site, clauseID(r, i, j)), r.Src, r.Where, c)
			g.assume(s, c)
		}
	}
	for _, c := range fc.Cuts {
		cond := env.boolExpr(c.E)
		g.panicIf(s, not(cond), "callee-panic:"+shortKey(ct.key))
	}
	if s.dead {
		return nil
	}
	pre := s.clone()
	// the callee's footprint must lie inside ours
	g.checkCallFrame(s, fc, env, site)
	// havoc
	if fc.Pure && fc.Fresh {
		panic(genErr("contract of %s is both pure and fresh: a pure callee allocates nothing (contradictory assumption)", ct.key))
	}
	if fc.Pure {
		for _, e := range fc.Ensures {
			if strings.Contains(e.Src, "fresh(") && !strings.Contains(e.Src, "!fresh(") {
				panic(genErr("contract of %s is pure but promises a fresh object (%s): a pure callee allocates nothing (contradictory assumption)", ct.key, strings.TrimSpace(e.Src)))
			}
		}
	}
	if !fc.Pure {
		n := g.fresh("next", "Int")
		g.assume(s, app(">=", n, s.next))
		s.next = n
	}
	heapSorts, ghosts := map[string]bool{}, map[string]bool{}
	pats := g.evalPats(env, fc.Modifies)
	for _, p := range pats {
		if p.ghost != "" {
			ghosts[p.ghost] = true
		} else {
			if !p.newobj {
				g.cellSorts(p.typ, heapSorts)
			}
		}
	}
	var hl []string
	for k := range heapSorts {
		hl = append(hl, k)
	}
	sort.Strings(hl)
	var fr []string
	for _, k := range hl {
		old := g.heap(pre, k)
		n := g.fresh(heapName(k)+"_c", "(Array Ref "+k+")")
		s.heaps[k] = n
		fr = append(fr, g.frameAxiomPats(pats, k, old, n, pre.next, nil))
		if c := closedHeapAxiom(n, k, s.next); c != "" {
			fr = append(fr, c)
		}
	}
	var gl []string
	for name := range ghosts {
		gl = append(gl, name)
	}
	sort.Strings(gl)
	for _, name := range gl {
		gd := g.c.ghosts[name]
		s.ghosts[name] = g.fresh("G_"+name+"_c", g.ghostSort(gd))
	}
	if !fc.Pure {
		// objects the callee allocated: their cells, too, hold references below the new allocation frontier
		havocked := map[string]bool{}
		for _, k := range hl {
			havocked[k] = true
		}
		for _, k := range []string{"Ref", "Slice", "Iface"} {
			if _, ok := s.heaps[k]; ok && !havocked[k] {
				if c := closedHeapAxiom(g.heap(s, k), k, s.next); c != "" {
					fr = append(fr, c)
				}
			}
		}
	}
	g.assume(s, and(fr...))
	outs := g.setResults(s, res, results, nil, shortFn(ct.key))
	penv := g.contractEnv(fc, ct, s, pre, args)
	penv.res = outs
	for i := 0; i < results.Len(); i++ {
		if n := results.At(i).Name(); n != "" && n != "_" {
			penv.vars[n] = outs[i]
		}
	}
	if fc.Fresh && len(outs) > 0 {
		r := outs[0].term
		if outs[0].ty.sort == "Slice" {
			r = app("s-arr", r)
		}
		if outs[0].ty.sort == "Iface" {
			r = app("i-val", r)
		}
		g.assume(s, and(app(">=", app("rid", r), pre.next), app("<", app("rid", r), s.next)))
	}
	var ens []string
	for _, e := range fc.Ensures {
		ens = append(ens, penv.boolExpr(e.E))
	}
	g.assume(s, and(ens...))
	// an assumed contract (extern / trusted) must not make its own continuation unreachable: cover before and after
	if (fc.Extern || fc.Trusted) && (len(fc.Ensures) > 0 || fc.Fresh) {
		g.cover = append(g.cover, coverPoint{fmt.Sprintf("before-%s", site), pre.pc}, coverPoint{fmt.Sprintf("after-%s", site), s.pc})
	}
	return outs
}

func shortFn(key string) string {
	if i := strings.LastIndex(key, "."); i >= 0 {
		return key[i+1:]
	}
	return key
}

// ---------- return ----------

func (g *FnGen) execReturn(s *State, x *ssa.Return) {
	g.retN++
	if g.fc == nil {
		return
	}
	env := g.newEnv(s, g.entry)
	env.post = true
	sig := g.fn.Signature
	for i, r := range x.Results {
		tv := TVal{term: g.term(s, r), ty: Ty{sort: g.c.reg.sortOf(r.Type()), gt: r.Type()}}
		env.res = append(env.res, tv)
		if n := sig.Results().At(i).Name(); n != "" && n != "_" {
			env.vars[n] = tv
		}
	}
	g.cover = append(g.cover, coverPoint{fmt.Sprintf("ret%d", g.retN), s.pc})
	for i, e := range g.fc.Ensures {
		if e.Assumed {
			g.c.assumptionsUsed["assumed postcondition (not checked in the body): "+g.fn.Name()+" ensures "+e.Src] = true
			continue
		}
		for j, c := range env.conjuncts(e.E) {
			g.addObl(s, "ensures", fmt.Sprintf("ensures[%s]@ret%d", clauseID(e, i, j), g.retN), e.Src, e.Where, c)
		}
		// a postcondition clause may rely on the clauses written before it (each is an obligation of its own,
		// so nothing is assumed that is not also proved)
		for _, c := range env.conjuncts(e.E) {
			g.assume(s, c)
		}
	}
	for i, e := range g.fc.IterEnsures {
		for j, c := range env.conjuncts(e.E) {
			g.addObl(s, "ensures", fmt.Sprintf("iterates[%s]@ret%d", clauseID(e, i, j), g.retN), e.Src, e.Where, c)
		}
	}
}

// ---------- slices / builtins ----------

func (g *FnGen) execSlice(s *State, x *ssa.Slice) {
	lo, hi := "0", ""
	if x.Low != nil {
		lo = g.term(s, x.Low)
	}
	if x.High != nil {
		hi = g.term(s, x.High)
	}
	if x.Max != nil {
		panic(genErr("3-index slice not supported"))
	}
	srt := g.c.reg.sortOf(x.X.Type())
	switch {
	case srt == "Str":
		v := g.term(s, x.X)
		if hi == "" {
			hi = app("slen", v)
		}
		g.panicIf(s, or(app("<", lo, "0"), app("<", hi, lo), app(">", hi, app("slen", v))), "slice-bounds")
		g.c.needSidx = true
		r := g.bind("sub", "Str", app("ssub", v, lo, hi))
		if !g.c.reg.nativeStr {
			g.assume(s, eq(app("slen", r), app("-", hi, lo)))
		}
		g.vals[x] = &Val{term: r}
	case srt == "Slice":
		v := g.term(s, x.X)
		if hi == "" {
			hi = app("s-len", v)
		}
		g.panicIf(s, or(app("<", lo, "0"), app("<", hi, lo), app(">", hi, app("s-cap", v))), "slice-bounds")
		nsl := g.fresh("sl", "Slice")
		g.defs = append(g.defs, eq(nsl, app("mk-slice", app("s-arr", v), app("+", app("s-off", v), lo), app("-", hi, lo), app("-", app("s-cap", v), lo))))
		g.defs = append(g.defs, fmt.Sprintf("(forall ((j Int)) (! (= (elemref %s j) (elemref %s (+ %s j))) :pattern ((elemref %s j))))", nsl, v, lo, nsl))
		g.vals[x] = &Val{term: nsl}
	default: // *[N]T
		p, ok := x.X.Type().Underlying().(*types.Pointer)
		if !ok {
			panic(genErr("slice of %s", x.X.Type()))
		}
		arr := p.Elem().Underlying().(*types.Array)
		a := g.val(s, x.X)
		if a.place != nil {
			panic(genErr("slicing a non-escaping local array"))
		}
		n := intLit(arr.Len())
		if hi == "" {
			hi = n
		}
		g.panicIf(s, or(app("<", lo, "0"), app("<", hi, lo), app(">", hi, n)), "slice-bounds")
		if isByteSlice(x.Type()) {
			if arr.Len() == 0 {
				// T{} of a byte-slice type: the empty byte string
				g.vals[x] = &Val{term: g.c.reg.strLit("")}
				return
			}
			panic(genErr("byte array to slice not supported"))
		}
		g.vals[x] = &Val{term: g.bind("sl", "Slice", app("mk-slice", a.term, lo, app("-", hi, lo), app("-", n, lo)))}
	}
}

func (g *FnGen) execBuiltin(s *State, b *ssa.Builtin, com *ssa.CallCommon, res ssa.Value) {
	arg := func(i int) string { return g.term(s, com.Args[i]) }
	switch b.Name() {
	case "len":
		t := com.Args[0].Type()
		switch g.c.reg.sortOf(t) {
		case "Str":
			g.vals[res] = &Val{term: app("slen", arg(0))}
		case "Slice":
			g.vals[res] = &Val{term: app("s-len", arg(0))}
		default:
			if m, ok := t.Underlying().(*types.Map); ok {
				g.vals[res] = &Val{term: g.mapLenTerm(s, arg(0), m)}
				return
			}
			if _, ok := t.Underlying().(*types.Chan); ok {
				n := g.fresh("chanlen", "Int")
				g.assume(s, app(">=", n, "0"))
				g.vals[res] = &Val{term: n}
				return
			}
			panic(genErr("len of %s", t))
		}
	case "cap":
		g.vals[res] = &Val{term: app("s-cap", arg(0))}
	case "append":
		g.execAppend(s, com, res)
	case "copy":
		g.execCopy(s, com, res)
	case "delete":
		g.execMapDelete(s, com)
	case "close":
		g.execChanClose(s, com)
	case "panic":
		if g.fc != nil && g.fc.NoPanic {
			g.addObl(s, "nopanic", fmt.Sprintf("nopanic[panic#%d]", g.seqN), "explicit panic", g.posOf(), "false")
		}
		s.dead = true
	case "recover":
		g.vals[res] = &Val{term: "niliface"}
	case "ssa:deferstack":
		g.vals[res] = &Val{term: nilRef}
	case "print", "println":
	default:
		panic(genErr("builtin %s not supported", b.Name()))
	}
}

// primPaths lists the primitive cells below a value of type t as (path, sort, type).
type primPath struct {
	path []int
	sort string
	typ  types.Type
}

func (g *FnGen) primPaths(t types.Type) []primPath {
	var out []primPath
	if mc, ok := t.(*mapCells); ok {
		vs, ds := g.mapSorts(mc.m)
		return []primPath{{[]int{0}, vs, nil}, {[]int{1}, ds, nil}}
	}
	var rec func(t types.Type, pre []int)
	rec = func(t types.Type, pre []int) {
		if si := g.c.reg.structOf(t); si != nil {
			for i, f := range si.fields {
				rec(f.typ, append(append([]int{}, pre...), i))
			}
			return
		}
		if a, ok := t.Underlying().(*types.Array); ok {
			if a.Len() > 8 {
				panic(genErr("large array in copied element type"))
			}
			for i := int64(0); i < a.Len(); i++ {
				rec(a.Elem(), append(append([]int{}, pre...), int(i)))
			}
			return
		}
		out = append(out, primPath{pre, g.c.reg.sortOf(t), t})
	}
	rec(t, nil)
	return out
}

// copyElems returns, per heap sort, a heap equal to the current one except
// that elements dst[dstStart .. dstStart+n) (cells of type et) hold the
// old contents of src[srcStart .. srcStart+n).
func (g *FnGen) copyElems(s *State, src *State, dstArr, dstStart string, srcRefOf func(idx string) string, n string, et types.Type) {
	bySort := map[string][]primPath{}
	for _, pp := range g.primPaths(et) {
		bySort[pp.sort] = append(bySort[pp.sort], pp)
	}
	var sorts []string
	for k := range bySort {
		sorts = append(sorts, k)
	}
	sort.Strings(sorts)
	for _, k := range sorts {
		h := g.heap(s, k)
		hs := g.heap(src, k)
		nh := g.fresh(heapName(k)+"_cp", "(Array Ref "+k+")")
		body := sel(h, "r")
		for _, pp := range bySort[k] {
			// r = mk-ref(rid dstArr, rev(path) ++ [i] ++ rpath dstArr)
			tail := app("rpath", "r")
			var conds []string
			for j := len(pp.path) - 1; j >= 0; j-- {
				conds = append(conds, "((_ is pcons) "+tail+")", eq(app("phd", tail), intLit(int64(pp.path[j]))))
				tail = app("ptl", tail)
			}
			idx := app("phd", tail)
			conds = append(conds, "((_ is pcons) "+tail+")", eq(app("ptl", tail), app("rpath", dstArr)), eq(app("rid", "r"), app("rid", dstArr)),
				app("<=", dstStart, idx), app("<", idx, app("+", dstStart, n)))
			srcRef := srcRefOf(idx)
			for _, f := range pp.path {
				srcRef = refFld(srcRef, f)
			}
			body = ite(and(conds...), sel(hs, srcRef), body)
		}
		g.defs = append(g.defs, fmt.Sprintf("(forall ((r Ref)) (! (= (select %s r) %s) :pattern ((select %s r))))", nh, body, nh))
		s.heaps[k] = nh
	}
}

func (g *FnGen) execAppend(s *State, com *ssa.CallCommon, res ssa.Value) {
	a, b := g.term(s, com.Args[0]), g.term(s, com.Args[1])
	if g.c.reg.sortOf(com.Args[0].Type()) == "Str" {
		g.vals[res] = &Val{term: app("scat", a, b)}
		return
	}
	et := com.Args[0].Type().Underlying().(*types.Slice).Elem()
	n := app("s-len", b)
	newLen := g.bind("alen", "Int", app("+", app("s-len", a), n))
	inplace := g.fresh("inplace", "Bool")
	g.defs = append(g.defs, eq(inplace, app("<=", newLen, app("s-cap", a))))
	pre := s.clone()
	// statically known number of appended elements (variadic call: slice of a fresh [k]T array)
	static := int64(-1)
	var srcArr string
	if sl, ok := com.Args[1].(*ssa.Slice); ok && sl.Low == nil && sl.High == nil {
		if al, ok := sl.X.(*ssa.Alloc); ok {
			if at, ok := al.Type().(*types.Pointer).Elem().Underlying().(*types.Array); ok && at.Len() <= 4 {
				static = at.Len()
				srcArr = g.term(s, al)
			}
		}
	}
	s1, s2 := s.clone(), s.clone()
	nr := g.allocRef(s2, "append")
	g.copyElems(s2, pre, nr, "0", func(idx string) string { return app("elemref", a, idx) }, app("s-len", a), et)
	if static >= 0 {
		for i := int64(0); i < static; i++ {
			v := g.bind("apv", g.c.reg.sortOf(et), g.load(pre, refSub(srcArr, intLit(i)), et))
			g.storeTo(s1, refSub(app("s-arr", a), app("+", app("s-off", a), app("s-len", a), intLit(i))), et, v)
			g.storeTo(s2, refSub(nr, app("+", app("s-len", a), intLit(i))), et, v)
		}
	} else {
		dst1 := app("+", app("s-off", a), app("s-len", a))
		g.copyElems(s1, pre, app("s-arr", a), dst1, func(idx string) string { return app("elemref", b, app("-", idx, dst1)) }, n, et)
		g.copyElems(s2, pre, nr, app("s-len", a), func(idx string) string { return app("elemref", b, app("-", idx, app("s-len", a))) }, n, et)
	}
	ncap := g.fresh("acap", "Int")
	g.assume(s, app(">=", ncap, newLen))
	sorts := map[string]bool{}
	g.cellSorts(et, sorts)
	for _, k := range sortedKeys(sorts) {
		nh := g.fresh(heapName(k)+"_ap", "(Array Ref "+k+")")
		g.defs = append(g.defs, eq(nh, ite(inplace, g.heap(s1, k), g.heap(s2, k))))
		s.heaps[k] = nh
	}
	s.next = s2.next // ids are never reused; skipping one in the in-place case is harmless
	r := g.fresh("appended", "Slice")
	g.defs = append(g.defs, eq(r, ite(inplace,
		app("mk-slice", app("s-arr", a), app("s-off", a), newLen, app("s-cap", a)),
		app("mk-slice", nr, "0", newLen, ncap))))
	g.vals[res] = &Val{term: r}
	// bridge for E-matching: element references of the result in terms of those of the operand
	g.defs = append(g.defs, fmt.Sprintf("(forall ((j Int)) (! (= (elemref %s j) (ite %s (elemref %s j) (rsub %s j))) :pattern ((elemref %s j))))", r, inplace, a, nr, r))
	// derived element-level facts (consequences of the pointwise heap definitions above, stated so that one
	// E-matching step relates an element of the result to the element it was copied from): the first len(a)
	// elements are those of a, the following ones those of b, both as they were before the append
	for _, pp := range g.primPaths(et) {
		if pp.typ == nil {
			continue
		}
		pathOf := func(base string) string {
			for _, f := range pp.path {
				base = refFld(base, f)
			}
			return base
		}
		nh := g.heap(s, pp.sort)
		ph := g.heap(pre, pp.sort)
		g.defs = append(g.defs, fmt.Sprintf("(forall ((j Int)) (! (=> (and (<= 0 j) (< j (s-len %s))) (= (select %s %s) (select %s %s))) :pattern ((elemref %s j))))",
			a, nh, pathOf(app("elemref", r, "j")), ph, pathOf(app("elemref", a, "j")), r))
		if static < 0 {
			g.defs = append(g.defs, fmt.Sprintf("(forall ((j Int)) (! (=> (and (<= (s-len %s) j) (< j %s)) (= (select %s %s) (select %s %s))) :pattern ((elemref %s j))))",
				a, newLen, nh, pathOf(app("elemref", r, "j")), ph, pathOf(app("elemref", b, app("-", "j", app("s-len", a)))), r))
		}
	}
	// frame: in-place append writes into the backing array of the first argument
	if g.fc != nil {
		g.checkFrameCond(pre, app("s-arr", a), inplace, et, "append")
	}
}

// boundInvoke: an interface method call whose interface is bound (`bind I => T`)
// uses T's method contract; the dynamic type is checked as a precondition.
// resolveBound: the concrete method (and its contract) an interface call is bound to by a `bind` declaration.
func (g *FnGen) resolveBound(com *ssa.CallCommon) (*FuncContract, *ssa.Function, types.Type, bool) {
	if !com.IsInvoke() {
		return nil, nil, nil, false
	}
	it := types.Unalias(com.Value.Type())
	ct, ok := g.c.binds[types.TypeString(it, nil)]
	if !ok {
		return nil, nil, nil, false
	}
	key0 := g.c.ifaceKey(it, com.Method.Name())
	if g.c.contracts[key0] != nil {
		return nil, nil, nil, false // an explicit interface contract wins
	}
	sel := g.c.prog.MethodSets.MethodSet(ct).Lookup(com.Method.Pkg(), com.Method.Name())
	if sel == nil {
		sel = g.c.prog.MethodSets.MethodSet(types.NewPointer(ct)).Lookup(com.Method.Pkg(), com.Method.Name())
	}
	if sel == nil {
		panic(genErr("bind: %s has no method %s", ct, com.Method.Name()))
	}
	fn := g.c.prog.MethodValue(sel)
	fc := g.c.contracts[g.c.fnKey(fn)]
	if fc == nil {
		panic(genErr("%s: call to %s (through interface %s) has no contract", g.fn.Name(), g.c.fnKey(fn), it))
	}
	return fc, fn, ct, true
}

func (g *FnGen) boundInvoke(s *State, com *ssa.CallCommon, res ssa.Value) bool {
	fc, fn, ct, ok := g.resolveBound(com)
	if !ok {
		return false
	}
	key := g.c.fnKey(fn)
	recv := g.term(s, com.Value)
	g.addObl(s, "requires", fmt.Sprintf("requires@%s[dyntype#%d]", shortKey(key), g.seqN), "dynamic type of the receiver is "+ct.String(), g.posOf(),
		eq(app("i-tid", recv), intLit(int64(g.c.typeID(ct)))))
	g.assume(s, eq(app("i-tid", recv), intLit(int64(g.c.typeID(ct)))))
	tgt := &callTarget{fc: fc, key: key, sig: fn.Signature, fn: fn}
	rn := "recv"
	if r := fn.Signature.Recv(); r != nil && r.Name() != "" && r.Name() != "_" {
		rn = r.Name()
	}
	tgt.names = append(tgt.names, rn)
	for i := 0; i < fn.Signature.Params().Len(); i++ {
		n := fn.Signature.Params().At(i).Name()
		if n == "" || n == "_" {
			n = fmt.Sprintf("arg%d", i)
		}
		tgt.names = append(tgt.names, n)
	}
	var args []TVal
	rt := fn.Signature.Recv().Type()
	if g.c.reg.sortOf(rt) == "Ref" {
		args = append(args, TVal{term: app("i-val", recv), ty: Ty{sort: "Ref", gt: rt}})
	} else {
		v := g.bind("unboxed", g.c.reg.sortOf(rt), g.load(s, app("i-val", recv), rt))
		args = append(args, TVal{term: v, ty: Ty{sort: g.c.reg.sortOf(rt), gt: rt}})
	}
	for _, a := range com.Args {
		args = append(args, TVal{term: g.term(s, a), ty: Ty{sort: g.c.reg.sortOf(a.Type()), gt: a.Type()}})
	}
	g.boundCallees[key] = true
	if fc.Iterates != nil {
		g.execIterCall(s, g.curInstr, res, fc, tgt, args, com.Args)
		return true
	}
	g.applyContract(s, fc, tgt, args, res, fn.Signature.Results())
	return true
}

func (g *FnGen) execCopy(s *State, com *ssa.CallCommon, res ssa.Value) {
	dst, src := g.term(s, com.Args[0]), g.term(s, com.Args[1])
	if g.c.reg.sortOf(com.Args[0].Type()) == "Str" {
		panic(genErr("copy into a byte slice is not supported (byte slices are immutable values in the model)"))
	}
	et := com.Args[0].Type().Underlying().(*types.Slice).Elem()
	n := g.bind("ncopy", "Int", app("imin", app("s-len", dst), app("s-len", src)))
	pre := s.clone()
	if g.fc != nil {
		g.checkFrameCond(pre, app("s-arr", dst), app(">", n, "0"), et, "append")
	}
	g.copyElems(s, pre, app("s-arr", dst), app("s-off", dst), func(idx string) string { return app("elemref", src, app("-", idx, app("s-off", dst))) }, n, et)
	if res != nil {
		g.vals[res] = &Val{term: n}
	}
}


// localClosure: v is a load of a local variable that is assigned exactly once, a closure literal, and whose address
// is used for nothing but loads (`f := func() {...}; ...; f()`).
func localClosure(v ssa.Value) *ssa.MakeClosure {
	ld, ok := v.(*ssa.UnOp)
	if !ok || ld.Op != token.MUL {
		return nil
	}
	al, ok := ld.X.(*ssa.Alloc)
	if !ok || al.Referrers() == nil {
		return nil
	}
	var mc *ssa.MakeClosure
	for _, r := range *al.Referrers() {
		switch x := r.(type) {
		case *ssa.Store:
			if x.Addr != al {
				return nil // the variable's address escapes into another cell
			}
			m, ok := x.Val.(*ssa.MakeClosure)
			if !ok || mc != nil {
				return nil
			}
			mc = m
		case *ssa.UnOp:
			if x.Op != token.MUL {
				return nil
			}
		case *ssa.DebugRef:
		default:
			return nil
		}
	}
	return mc
}

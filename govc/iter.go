package main

// Higher-order store iterators (DESIGN 3.7).
//
// A function with the clause `iterates fn over <store>, <prefix> as T` (WithOrdersForGroup, ...)
//
//  - is itself verified against the call-trace semantics of that clause: a call of its parameter fn is an
//    event appended to the ghost trace (CbN, CbArg_T, CbRes) followed by a havoc of everything the unknown
//    callback could reach (all heaps for objects older than this invocation, all ghosts but the trace and the
//    iterator ghosts, which belong to objects the callback cannot reach); the generated postconditions
//    iter-count / iter-args / iter-nostop / iter-end say the trace is exactly the enumeration of the prefix
//    (store as of entry) up to the first `true`;
//
//  - at a call site that passes a closure literal, is treated as a loop over that enumeration: the caller's
//    contract gives `call k invariant I` (over cbidx = number of completed callbacks, cbstop = the last one
//    returned true, atloop(e) = e at the call); obligations: I(0,false) at the call; from I(j,false), j < n,
//    the closure's contract applied to record j re-establishes I(j+1, r); afterwards I(j,stop) with
//    stop || j = n is assumed.  The closure body is verified as a function of its own.

import (
	"fmt"
	"go/types"
	"sort"
	"strings"

	"golang.org/x/tools/go/ssa"
)

func (g *FnGen) isCallbackParam(v ssa.Value) bool {
	if g.fc == nil || g.fc.Iterates == nil {
		return false
	}
	if p, ok := v.(*ssa.Parameter); ok {
		return p.Name() == g.fc.Iterates.Fn
	}
	// naive form: the parameter is spilled to a local cell and loaded at the call
	u, ok := v.(*ssa.UnOp)
	if !ok {
		return false
	}
	a, ok := u.X.(*ssa.Alloc)
	if !ok {
		return false
	}
	stores := 0
	fromParam := false
	for _, ref := range *a.Referrers() {
		if st, ok := ref.(*ssa.Store); ok && st.Addr == a {
			stores++
			if p, ok := st.Val.(*ssa.Parameter); ok && p.Name() == g.fc.Iterates.Fn {
				fromParam = true
			}
		}
	}
	return stores == 1 && fromParam
}

func traceGhost(name string) bool {
	return strings.HasPrefix(name, "Cb") || strings.HasPrefix(name, "It")
}

func (g *FnGen) iterLog() string {
	return "CbArg_" + strings.NewReplacer(".", "_").Replace(g.fc.Iterates.Type)
}

// execCallbackCall: fn(v) inside the iterator function.
func (g *FnGen) execCallbackCall(s *State, com *ssa.CallCommon, res ssa.Value) {
	if len(com.Args) != 1 {
		panic(genErr("%s: callback with %d arguments", g.fn.Name(), len(com.Args)))
	}
	fv := g.term(s, com.Value)
	g.panicIf(s, eq(fv, "nilfn"), "nil-func")
	v := g.term(s, com.Args[0])
	lg := g.iterLog()
	gd := g.c.ghosts[lg]
	want := g.ghostSort(gd)
	if got := "(Array Int " + g.c.reg.sortOf(com.Args[0].Type()) + ")"; got != want {
		panic(genErr("%s: callback argument sort %s does not match `as %s`", g.fn.Name(), got, g.fc.Iterates.Type))
	}
	n0 := g.ghost(s, "CbN")
	log0 := g.ghost(s, lg)
	res0 := g.ghost(s, "CbRes")
	// havoc what the callback can reach
	pre := s.clone()
	nx := g.fresh("next", "Int")
	g.assume(s, app(">=", nx, s.next))
	s.next = nx
	sorts := map[string]bool{"Int": true, "Bool": true, "Str": true, "Ref": true, "Slice": true, "Iface": true, "Fn": true}
	for k := range s.heaps {
		sorts[k] = true
	}
	var hl []string
	for k := range sorts {
		hl = append(hl, k)
	}
	sort.Strings(hl)
	var fr []string
	for _, k := range hl {
		if _, ok := s.heaps[k]; !ok {
			if _, declared := g.declOf[heapName(k)+"!0"]; !declared {
				continue // never read so far: covered by the generation suffix
			}
		}
		old := g.heap(pre, k)
		n := g.fresh(heapName(k)+"_cb", "(Array Ref "+k+")")
		s.heaps[k] = n
		// objects allocated by this invocation are out of the callback's reach
		fr = append(fr, fmt.Sprintf("(forall ((r Ref)) (! (=> (>= (rid r) next!0) (= (select %s r) (select %s r))) :pattern ((select %s r))))", n, old, n))
	}
	var gl []string
	for name := range g.c.ghosts {
		if !traceGhost(name) {
			gl = append(gl, name)
		}
	}
	sort.Strings(gl)
	for _, name := range gl {
		_, touched := s.ghosts[name]
		_, declared := g.declOf["G_"+name+"!0"]
		if !touched && !declared {
			continue
		}
		s.ghosts[name] = g.fresh("G_"+name+"_cb", g.ghostSort(g.c.ghosts[name]))
	}
	s.gen = fmt.Sprintf("!cb%d", g.callN)
	g.callN++
	g.assume(s, and(fr...))
	r := g.fresh("r_cb", "Bool")
	s.ghosts[lg] = g.bind("G_"+lg, want, store(log0, n0, v))
	s.ghosts["CbRes"] = g.bind("G_CbRes", "(Array Int Bool)", store(res0, n0, r))
	s.ghosts["CbN"] = g.bind("G_CbN", "Int", app("+", n0, "1"))
	if res != nil {
		g.vals[res] = &Val{term: r}
	}
}

// callbackEffects is the loop-head summary of a callback call.
func (g *FnGen) callbackEffects(heapSorts, ghosts map[string]bool, allocs *bool) {
	*allocs = true
	for _, k := range []string{"Int", "Bool", "Str", "Ref", "Slice", "Iface", "Fn"} {
		heapSorts[k] = true
	}
	for k := range g.c.reg.heapSorts {
		heapSorts[k] = true
	}
	for name := range g.c.ghosts {
		if !traceGhost(name) {
			ghosts[name] = true
		}
	}
	ghosts["CbN"], ghosts["CbRes"], ghosts[g.iterLog()] = true, true, true
}

// ---------- caller side ----------

type iterSite struct {
	fc  *FuncContract
	ct  *callTarget
	mc  *ssa.MakeClosure
	ord int
}

// iterCallSite recognises a static call of an `iterates` function.
func (g *FnGen) iterCallSite(com *ssa.CallCommon) (*FuncContract, *callTarget, bool) {
	if com.IsInvoke() {
		if fc, fn, _, ok := g.resolveBound(com); ok && fc.Iterates != nil {
			return fc, &callTarget{fc: fc, key: g.c.fnKey(fn), sig: fn.Signature, fn: fn}, true
		}
		return nil, nil, false
	}
	if com.StaticCallee() == nil {
		return nil, nil, false
	}
	fc, ct := g.c.calleeContract(g, com)
	if fc == nil || fc.Iterates == nil {
		return nil, nil, false
	}
	return fc, ct, true
}

func (g *FnGen) numberIterCalls() {
	g.iterOrd = map[ssa.Instruction]int{}
	type item struct {
		ins ssa.Instruction
	}
	var items []ssa.Instruction
	for _, b := range g.fn.Blocks {
		for _, ins := range b.Instrs {
			if ci, ok := ins.(ssa.CallInstruction); ok {
				com := ci.Common()
				if _, isB := com.Value.(*ssa.Builtin); isB {
					continue
				}
				if _, isC := com.Value.(*ssa.MakeClosure); isC && !com.IsInvoke() {
					continue
				}
				if com.StaticCallee() == nil && !com.IsInvoke() {
					continue
				}
				if _, _, ok := g.iterCallSite(com); ok {
					items = append(items, ins)
				}
			}
		}
	}
	sort.SliceStable(items, func(i, j int) bool { return items[i].Pos() < items[j].Pos() })
	for i, ins := range items {
		g.iterOrd[ins] = i + 1
	}
}

// execIterCall: args are the evaluated arguments (receiver first when the callee is a method); raw are the
// SSA operands of the trailing len(raw) arguments (where the closure literal is looked for).
func (g *FnGen) execIterCall(s *State, ins ssa.Instruction, res ssa.Value, fc *FuncContract, ct *callTarget, args []TVal, raw []ssa.Value) {
	it := fc.Iterates
	k := g.iterOrd[ins]
	var mc *ssa.MakeClosure
	off := len(ct.names) - len(raw)
	if off < 0 || len(args) != len(ct.names) {
		panic(genErr("%s: iterator %s: %d arguments for %d parameters", g.fn.Name(), shortKey(ct.key), len(args), len(ct.names)))
	}
	for i, a := range raw {
		if ct.names[off+i] == it.Fn {
			m, ok := a.(*ssa.MakeClosure)
			if !ok {
				panic(genErr("%s: iterator %s must be given a closure literal", g.fn.Name(), shortKey(ct.key)))
			}
			mc = m
		}
	}
	if mc == nil {
		panic(genErr("%s: iterator %s: parameter %s not found", g.fn.Name(), shortKey(ct.key), it.Fn))
	}
	cfc, cct, caps := g.closureTarget(mc)
	if cfc == nil {
		panic(genErr("%s: closure %s passed to iterator %s has no contract", g.fn.Name(), cct.key, shortKey(ct.key)))
	}
	cct.caps = caps
	var lc *LoopContract
	if g.fc != nil {
		lc = g.fc.Calls[k]
	}
	if lc == nil || len(lc.Invariants) == 0 {
		panic(genErr("%s: iterator call %d (%s) has no `call %d invariant`", g.fn.Name(), k, shortKey(ct.key), k))
	}
	if fc.Extern || fc.Trusted {
		g.usedExtern[ct.key] = true
	}
	saved := g.c.curFile
	g.c.curFile = g.c.ctrFile[fc]
	env := g.contractEnv(fc, ct, s, s, args)
	site := fmt.Sprintf("%s#iter%d", shortKey(ct.key), k)
	for i, r := range fc.Requires {
		for j, c := range env.conjuncts(r.E) {
			g.addObl(s, "requires", fmt.Sprintf("requires@%s[%s]", site, clauseID(r, i, j)), r.Src, r.Where, c)
			g.assume(s, c)
		}
	}
	skey := env.eval(it.Store).term
	pfx := env.eval(it.Prefix).term
	tT := g.c.goTypeOf(it.Type, g.c.typesPkgs[fc.PkgPath])
	g.checkCallFrame(s, fc, env, site)
	g.c.curFile = saved
	if s.dead {
		return
	}
	skey = g.bind("itstore", "Iface", skey)
	pfx = g.bind("itpfx", "Str", pfx)
	has0 := g.bind("ithas", "(Array Str Bool)", sel(g.ghost(s, "KVhas"), skey))
	val0 := g.bind("itval", "(Array Str Str)", sel(g.ghost(s, "KVval"), skey))
	n := g.bind("itn", "Int", app("enumLen", has0, pfx))
	g.assume(s, app(">=", n, "0"))

	li := &loopInfo{ordinal: 1000 + k, lc: lc, pre: s.clone()}
	invEnv := func(st *State, idx, stop string) *Env {
		e := g.newEnv(st, g.entry)
		e.loop = li
		e.vars["cbidx"] = TVal{term: idx, ty: intTy()}
		e.vars["cbstop"] = TVal{term: stop, ty: boolTy()}
		return e
	}
	e0 := invEnv(s, "0", "false")
	for i, inv := range lc.Invariants {
		for j, c := range e0.conjuncts(inv.E) {
			g.addObl(s, "inv-init", fmt.Sprintf("call-inv-init[%d.%s]", k, clauseID(inv, i, j)), inv.Src, inv.Where, c)
		}
	}
	if s.dead {
		return
	}
	// havoc: what the closure (and the iterator itself) may modify
	pre := s.clone()
	li.pre = pre
	li.nextPre = pre.next
	li.entered = true
	heapSorts, ghosts := map[string]bool{}, map[string]bool{}
	cenv := g.contractEnv(cfc, cct, pre, pre, []TVal{{term: "?", ty: Ty{sort: g.c.reg.sortOf(tT), gt: tT}}})
	g.c.curFile = g.c.ctrFile[cfc]
	mods := append([]Clause{}, cfc.Modifies...)
	cpats := g.evalPats(cenv, mods)
	g.c.curFile = g.c.ctrFile[fc]
	ipats := g.evalPats(g.contractEnv(fc, ct, pre, pre, args), fc.Modifies)
	g.c.curFile = saved
	pats := append(cpats, ipats...)
	if lc.HasMod {
		fenv := g.newEnv(pre, g.entry)
		fenv.loop = li
		pats = append(pats, g.evalPats(fenv, lc.Modifies)...)
	}
	for _, p := range pats {
		if p.ghost != "" {
			ghosts[p.ghost] = true
		} else {
			if !p.newobj {
				g.cellSorts(p.typ, heapSorts)
			}
		}
	}
	nx := g.fresh("next_it", "Int")
	g.assume(s, app(">=", nx, s.next))
	s.next = nx
	var hl []string
	for kk := range heapSorts {
		hl = append(hl, kk)
	}
	sort.Strings(hl)
	var fr []string
	for _, kk := range hl {
		old := g.heap(pre, kk)
		nh := g.fresh(heapName(kk)+"_it", "(Array Ref "+kk+")")
		s.heaps[kk] = nh
		fr = append(fr, g.frameAxiomPats(pats, kk, old, nh, pre.next, nil))
	}
	var gl []string
	for name := range ghosts {
		gl = append(gl, name)
	}
	sort.Strings(gl)
	for _, name := range gl {
		for _, gname := range g.expandGhostNames(name) {
			s.ghosts[gname] = g.fresh("G_"+gname+"_it", g.ghostSort(g.c.ghosts[gname]))
		}
	}
	g.assume(s, and(fr...))
	j := g.fresh("cbidx", "Int")
	stop := g.fresh("cbstop", "Bool")
	g.assume(s, and(app("<=", "0", j), app("<=", j, n)))
	eh := invEnv(s, j, stop)
	var is []string
	for _, inv := range lc.Invariants {
		is = append(is, eh.boolExpr(inv.E))
	}
	g.assume(s, and(is...))

	// step
	st := s.clone()
	g.assume(st, and(app("<", j, n), not(stop)))
	g.cover = append(g.cover, coverPoint{fmt.Sprintf("call%d-step", k), st.pc})
	_, dec := g.c.codecFuns(tT)
	key := g.bind("itkey", "Str", app("enumKey", has0, pfx, j))
	g.assume(st, and(sel(has0, key)))
	v := g.bind("itrec", g.c.reg.sortOf(tT), app(dec, sel(val0, key)))
	g.assume(st, g.typeInv(st, v, tT, 0))
	outs := g.applyContract(st, cfc, cct, []TVal{{term: v, ty: Ty{sort: g.c.reg.sortOf(tT), gt: tT}}}, nil, cct.sig.Results())
	if !st.dead {
		if len(outs) != 1 || outs[0].ty.sort != "Bool" {
			panic(genErr("%s: callback of iterator %s must return bool", g.fn.Name(), shortKey(ct.key)))
		}
		es := invEnv(st, app("+", j, "1"), outs[0].term)
		for i, inv := range lc.Invariants {
			for jj, c := range es.conjuncts(inv.E) {
				g.addObl(st, "inv-step", fmt.Sprintf("call-inv-step[%d.%s]", k, clauseID(inv, i, jj)), inv.Src, inv.Where, c)
			}
		}
	}
	// exit
	g.assume(s, or(stop, eq(j, n)))
	g.cover = append(g.cover, coverPoint{fmt.Sprintf("call%d-exit", k), s.pc})
	g.setResults(s, res, ct.sig.Results(), nil, shortFn(ct.key))
	_ = types.Typ
}

// expandGhostNames: a wildcard ghost pattern (It_all) stands for every ghost with that prefix.
func (g *FnGen) expandGhostNames(name string) []string {
	if strings.HasSuffix(name, "_all") {
		pfx := strings.TrimSuffix(name, "_all")
		var out []string
		for n := range g.c.ghosts {
			if strings.HasPrefix(n, pfx) {
				out = append(out, n)
			}
		}
		sort.Strings(out)
		sort.Strings(out)
		return out
	}
	return []string{name}
}

package validation

// Bounded stand-in for C10 (cross-validation of a manifest group against the on-chain group).
// The deductive proof of validateManifestDeploymentGroup did not go through (see DESIGN.md); this test runs the REAL
// function on every input within the bound below and compares its verdict with the specification:
//
//   accept  <=>  for every kind of compute unit the replicas of the manifest services of that kind add up to the
//                replicas ordered on chain for that kind, and the numbers of HTTP-ingress / other global endpoints
//                of the manifest equal the numbers of SHARED_HTTP / RANDOM_PORT endpoints on chain.
//
// Bound: up to 3 on-chain resource records and up to 3 manifest services, 2 kinds of compute unit, replica counts
// 0..3 (manifest) and 1..3 (chain), every assignment of kinds, every order; endpoint layouts from a fixed family
// of 4 per side.  (injected into /repo/validation with `go test -overlay`; not part of the repository.)

import (
	"fmt"
	"testing"

	sdk "github.com/cosmos/cosmos-sdk/types"

	"github.com/ovrclk/akash/manifest"
	"github.com/ovrclk/akash/types"
	dtypes "github.com/ovrclk/akash/x/deployment/types"
)

func verifUnits(kind int, eps []types.Endpoint) types.ResourceUnits {
	v := uint64(100 + 50*kind)
	return types.ResourceUnits{
		CPU:       &types.CPU{Units: types.NewResourceValue(v)},
		Memory:    &types.Memory{Quantity: types.NewResourceValue(1 << 20)},
		Storage:   &types.Storage{Quantity: types.NewResourceValue(1 << 20)},
		Endpoints: eps,
	}
}

type verifRec struct{ kind, count int }

func verifAll(n, kinds, lo, hi int) [][]verifRec {
	out := [][]verifRec{{}}
	for l := 1; l <= n; l++ {
		var cur [][]verifRec
		var rec func(pre []verifRec)
		rec = func(pre []verifRec) {
			if len(pre) == l {
				cur = append(cur, append([]verifRec{}, pre...))
				return
			}
			for k := 0; k < kinds; k++ {
				for c := lo; c <= hi; c++ {
					rec(append(pre, verifRec{k, c}))
				}
			}
		}
		rec(nil)
		out = append(out, cur...)
	}
	return out
}

func TestVerifC10BoundedCrossValidation(t *testing.T) {
	chainEP := [][]types.Endpoint{nil, {{Kind: types.Endpoint_SHARED_HTTP}}, {{Kind: types.Endpoint_RANDOM_PORT}}, {{Kind: types.Endpoint_SHARED_HTTP}, {Kind: types.Endpoint_RANDOM_PORT}}}
	manEP := [][]manifest.ServiceExpose{nil,
		{{Port: 80, Proto: manifest.TCP, Global: true}},
		{{Port: 8080, Proto: manifest.TCP, Global: true}},
		{{Port: 80, Proto: manifest.TCP, Global: true}, {Port: 53, Proto: manifest.UDP, Global: true}}}
	chains := verifAll(3, 2, 1, 3)
	mans := verifAll(3, 2, 0, 3)
	checked := 0
	for _, ch := range chains {
		for _, mn := range mans {
			for ce := range chainEP {
				for me := range manEP {
					if (len(ch) == 0 && ce != 0) || (len(mn) == 0 && me != 0) {
						continue
					}
					// build the on-chain group
					gs := dtypes.GroupSpec{Name: "g"}
					wantHTTP, wantOther := 0, 0
					sum := map[int]int{}
					for i, r := range ch {
						var eps []types.Endpoint
						if i == 0 {
							eps = chainEP[ce]
							for _, e := range eps {
								if e.Kind == types.Endpoint_SHARED_HTTP {
									wantHTTP++
								} else {
									wantOther++
								}
							}
						}
						gs.Resources = append(gs.Resources, dtypes.Resource{Resources: verifUnits(r.kind, eps), Count: uint32(r.count), Price: sdk.NewInt64Coin("uakt", 1)})
						sum[r.kind] += r.count
					}
					// build the manifest group
					mg := manifest.Group{Name: "g"}
					gotHTTP, gotOther := 0, 0
					for i, r := range mn {
						var ex []manifest.ServiceExpose
						if i == 0 {
							ex = manEP[me]
							for _, e := range ex {
								if e.Proto == manifest.TCP && e.Port == 80 {
									gotHTTP++
								} else {
									gotOther++
								}
							}
						}
						mg.Services = append(mg.Services, manifest.Service{Name: fmt.Sprintf("s%d", i), Image: "i", Resources: verifUnits(r.kind, nil), Count: uint32(r.count), Expose: ex})
						sum[r.kind] -= r.count
					}
					want := sum[0] == 0 && sum[1] == 0 && wantHTTP == gotHTTP && wantOther == gotOther
					err := validateManifestDeploymentGroup(mg, gs)
					checked++
					if (err == nil) != want {
						t.Fatalf("C10 violated (bounded stand-in): chain=%v endpoints#%d manifest=%v exposes#%d: spec says accept=%v, validateManifestDeploymentGroup returned %v", ch, ce, mn, me, want, err)
					}
				}
			}
		}
	}
	t.Logf("bounded stand-in: %d inputs checked", checked)
}
